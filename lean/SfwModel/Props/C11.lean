/-
  C11 — Scans running during database writes see one consistent version.
-/
import SfwModel.Model.Concurrent
import SfwModel.Props.C06
namespace Sfw.Concurrent
open Sfw Sfw.Store

/-! ### helper lemmas: versions are append-only, and the reader invariant -/

theorem version_append (w w' : World) (l : List KV) (h : w'.versions = w.versions ++ l) (i : Nat)
    (hi : i < w.versions.length) : version w' i = version w i := by
  unfold version
  rw [h, List.getElem?_append_left hi]

theorem stepWorld_versions (w : World) (e : Ev) : ∃ l, (stepWorld w e).versions = w.versions ++ l := by
  cases e with
  | commit b => exact ⟨_, rfl⟩
  | setThr x => exact ⟨[], by simp [stepWorld]⟩
  | setTol x => exact ⟨[], by simp [stepWorld]⟩
  | reader => exact ⟨[], by simp [stepWorld]⟩

theorem stepAll_fst (c : Cfg) (w : World) (p : ReaderPhase) (e : Ev) :
    (stepAll c (w, p) e).1 = stepWorld w e := by
  cases e <;> rfl

theorem stepAll_snd_reader (c : Cfg) (w : World) (p : ReaderPhase) :
    (stepAll c (w, p) .reader).2 = readerStep c w p := rfl

theorem stepAll_snd_other (c : Cfg) (w : World) (p : ReaderPhase) (e : Ev) (he : e ≠ .reader) :
    (stepAll c (w, p) e).2 = p := by
  cases e <;> first | rfl | exact absurd rfl he

/-- the reader invariant -/
def PInv (c : Cfg) (w : World) : ReaderPhase → Prop
  | .start => True
  | .configured _ _ => True
  | .snapped _ _ snap => snap < w.versions.length
  | .fetching _ tol snap todo seen acc => snap < w.versions.length ∧
      Store.processHits.go (version w snap) c.t tol todo seen acc = candidates (version w snap) c.H c.t tol
  | .done r snap thr tol => snap < w.versions.length ∧ r = scanFull (version w snap) c.H c.t thr tol

theorem PInv_mono (c : Cfg) (w w' : World) (l : List KV) (h : w'.versions = w.versions ++ l)
    (p : ReaderPhase) (hp : PInv c w p) : PInv c w' p := by
  have hlen : w.versions.length ≤ w'.versions.length := by rw [h]; simp
  cases p with
  | start => trivial
  | configured _ _ => trivial
  | snapped _ _ snap => exact Nat.lt_of_lt_of_le hp hlen
  | fetching _ tol snap todo seen acc =>
    obtain ⟨h1, h2⟩ := hp
    refine ⟨Nat.lt_of_lt_of_le h1 hlen, ?_⟩
    rw [version_append w w' l h snap h1]; exact h2
  | done r snap thr tol =>
    obtain ⟨h1, h2⟩ := hp
    refine ⟨Nat.lt_of_lt_of_le h1 hlen, ?_⟩
    rw [version_append w w' l h snap h1]; exact h2

theorem PInv_reader (c : Cfg) (hc : c.fromSnapshot = true) (w : World) (hw : w.versions ≠ [])
    (p : ReaderPhase) (hp : PInv c w p) : PInv c w (readerStep c w p) := by
  cases p with
  | start => trivial
  | configured thr tol =>
    show w.versions.length - 1 < w.versions.length
    have := List.length_pos_iff.2 hw
    omega
  | snapped thr tol snap =>
    exact ⟨hp, rfl⟩
  | fetching thr tol snap todo seen acc =>
    obtain ⟨h1, h2⟩ := hp
    cases todo with
    | nil =>
      refine ⟨h1, ?_⟩
      unfold scanFull
      rw [← h2]
      simp [Store.processHits.go]
    | cons v rest =>
      rw [Store.processHits.go] at h2
      simp only [readerStep, hc, if_true]
      split
      · next hv => simp only [hv] at h2; exact ⟨h1, h2⟩
      · next id pk hv =>
        simp only [hv] at h2
        split
        · next hs => simp only [hs, if_true] at h2; exact ⟨h1, h2⟩
        · next hs =>
          simp only [hs] at h2
          split
          · next he => simp only [he, if_true] at h2; exact ⟨h1, h2⟩
          · next he =>
            simp only [he] at h2
            split
            · next s hg => simp only [hg] at h2; exact ⟨h1, h2⟩
            · next hg => simp only [hg] at h2; exact ⟨h1, h2⟩
  | done r s a b => exact hp

theorem stepAll_inv (c : Cfg) (hc : c.fromSnapshot = true) (s : World × ReaderPhase) (e : Ev)
    (hw : s.1.versions ≠ []) (hp : PInv c s.1 s.2) :
    (stepAll c s e).1.versions ≠ [] ∧ PInv c (stepAll c s e).1 (stepAll c s e).2 := by
  obtain ⟨w, p⟩ := s
  by_cases he : e = .reader
  · subst he
    exact ⟨hw, PInv_reader c hc w hw p hp⟩
  · obtain ⟨l, hl⟩ := stepWorld_versions w e
    rw [stepAll_fst, stepAll_snd_other c w p e he]
    refine ⟨?_, PInv_mono c w _ l hl p hp⟩
    rw [hl]; simpa using fun h => absurd h hw

theorem run_inv (c : Cfg) (hc : c.fromSnapshot = true) (evs : List Ev) :
    ∀ s : World × ReaderPhase, s.1.versions ≠ [] → PInv c s.1 s.2 →
      (evs.foldl (stepAll c) s).1.versions ≠ [] ∧
      PInv c (evs.foldl (stepAll c) s).1 (evs.foldl (stepAll c) s).2 := by
  induction evs with
  | nil => intro s hw hp; exact ⟨hw, hp⟩
  | cons e rest ih =>
    intro s hw hp
    obtain ⟨h1, h2⟩ := stepAll_inv c hc s e hw hp
    exact ih _ h1 h2

/-- window invariant: the world only grows and a snapped index is at least `n - 1` -/
def WInv (n : Nat) (w : World) : ReaderPhase → Prop
  | .start => n ≤ w.versions.length
  | .configured _ _ => n ≤ w.versions.length
  | .snapped _ _ snap => n ≤ w.versions.length ∧ n - 1 ≤ snap
  | .fetching _ _ snap _ _ _ => n ≤ w.versions.length ∧ n - 1 ≤ snap
  | .done _ snap _ _ => n ≤ w.versions.length ∧ n - 1 ≤ snap

theorem WInv_len (n : Nat) (w : World) (p : ReaderPhase) (h : WInv n w p) : n ≤ w.versions.length := by
  cases p <;> first | exact h | exact h.1

theorem WInv_mono (n : Nat) (w w' : World) (hlen : w.versions.length ≤ w'.versions.length)
    (p : ReaderPhase) (h : WInv n w p) : WInv n w' p := by
  cases p <;> first | exact Nat.le_trans h hlen | exact ⟨Nat.le_trans h.1 hlen, h.2⟩

theorem WInv_reader (n : Nat) (c : Cfg) (w : World) (p : ReaderPhase) (h : WInv n w p) :
    WInv n w (readerStep c w p) := by
  cases p with
  | start => exact h
  | configured thr tol => exact ⟨h, Nat.sub_le_sub_right h 1⟩
  | snapped thr tol snap => exact h
  | fetching thr tol snap todo seen acc =>
    cases todo with
    | nil => exact h
    | cons v rest =>
      simp only [readerStep]
      repeat' split
      all_goals exact h
  | done r s a b => exact h

theorem stepAll_winv (n : Nat) (c : Cfg) (s : World × ReaderPhase) (e : Ev) (h : WInv n s.1 s.2) :
    WInv n (stepAll c s e).1 (stepAll c s e).2 := by
  obtain ⟨w, p⟩ := s
  by_cases he : e = .reader
  · subst he; exact WInv_reader n c w p h
  · obtain ⟨l, hl⟩ := stepWorld_versions w e
    rw [stepAll_fst, stepAll_snd_other c w p e he]
    exact WInv_mono n w _ (by rw [hl]; simp) p h

theorem run_winv (n : Nat) (c : Cfg) (evs : List Ev) :
    ∀ s : World × ReaderPhase, WInv n s.1 s.2 →
      WInv n (evs.foldl (stepAll c) s).1 (evs.foldl (stepAll c) s).2 := by
  induction evs with
  | nil => intro s h; exact h
  | cons e rest ih => intro s h; exact ih _ (stepAll_winv n c s e h)

/-! ### the theorems -/

/-- versions are append-only: an existing version never changes, whatever happens later -/
theorem C11_versions_stable (c : Cfg) (w : World) (p : ReaderPhase) (e : Ev) (i : Nat)
    (hi : i < w.versions.length) :
    version (stepAll c (w, p) e).1 i = version w i := by
  obtain ⟨l, hl⟩ := stepWorld_versions w e
  rw [stepAll_fst]
  exact version_append w _ l hl i hi

/-- For EVERY interleaving of writer commits, threshold/tolerance changes and reader steps: if the
    reader (reading through its snapshot) finishes, its result is exactly the pure scan of the ONE
    version it snapped, at the threshold/tolerance it read — no entry of another version is mixed in. -/
theorem C11_scan_linearises (c : Cfg) (hc : c.fromSnapshot = true) (w0 : World) (hw : w0.versions ≠ [])
    (evs : List Ev) (r : List MatchResult) (snap : Nat) (thr tol : Rat)
    (h : (runSchedule c w0 evs).2 = .done r snap thr tol) :
    r = scanFull (version (runSchedule c w0 evs).1 snap) c.H c.t thr tol ∧
    snap < (runSchedule c w0 evs).1.versions.length := by
  have hinv := (run_inv c hc evs (w0, .start) hw trivial).2
  change PInv c (runSchedule c w0 evs).1 (runSchedule c w0 evs).2 at hinv
  rw [h] at hinv
  exact ⟨hinv.2, hinv.1⟩

set_option linter.unusedVariables false in -- `hw` is part of the stated interface but not needed
/-- the snapped version existed during the scan: its index lies between the number of versions at
    the first reader step and at the end -/
theorem C11_snapshot_in_window (c : Cfg) (w0 : World) (hw : w0.versions ≠ [])
    (evs : List Ev) (r : List MatchResult) (snap : Nat) (thr tol : Rat)
    (h : (runSchedule c w0 evs).2 = .done r snap thr tol) :
    w0.versions.length - 1 ≤ snap := by
  have hinv := run_winv w0.versions.length c evs (w0, .start) (Nat.le_refl _)
  change WInv _ (runSchedule c w0 evs).1 (runSchedule c w0 evs).2 at hinv
  rw [h] at hinv
  exact hinv.2

/-- Combined with C06: if the snapped version satisfies the store invariant, the result is the
    brute-force scan over exactly the signatures live in that version (no ghost, no miss). -/
theorem C11_scan_correct_for_version (c : Cfg) (hc : c.fromSnapshot = true) (w0 : World) (hw : w0.versions ≠ [])
    (evs : List Ev) (r : List MatchResult) (snap : Nat) (thr tol : Rat)
    (h : (runSchedule c w0 evs).2 = .done r snap thr tol)
    (hinv : Inv (version (runSchedule c w0 evs).1 snap))
    (hH : colon ∉ bytes c.H) (hF : colon ∉ bytes (fuzzyHash c.t)) :
    r = bruteScanFull (abs (version (runSchedule c w0 evs).1 snap)) c.H c.t thr tol := by
  rw [(C11_scan_linearises c hc w0 hw evs r snap thr tol h).1]
  exact C06_scanFull_eq _ hinv c.H c.t thr tol hH hF

/-! ### the live-store variant is not linearisable

  Version 0 holds signature `x` (name `a`, topology hash `h`), written by a real `AddSignature`
  batch.  The reader configures, snapshots version 0 and iterates the `topo:h:` range of the snapshot
  (one hit: `x`).  Then a writer re-adds `x` with name `b` and topology hash `g` (a real
  `AddSignature` batch: it deletes `topo:h:x`, replaces the record, writes `topo:g:x`).  The reader
  now fetches the record of `x` from the LIVE store and reports `x`/`b` for hash `h`:
  version 0 would report `x`/`a` (exact topology match), version 1 reports nothing. -/

def cexT : Topo :=
  { paramCount := 0, returnCount := 0, blockCount := 0, instrCount := 0, loopCount := 0, branchCount := 0,
    calls := [], instrs := [], binops := [], paramTypes := [], returnTypes := [],
    hasDefer := false, hasPanic := false, hasGo := false, hasSelect := false, hasRange := false,
    strings := [], entropy := 0 }

def cexSig (name topo : Str) : Sig :=
  { id := ['x'], name := name, severity := [], topoHash := topo, fuzzyHash := [], entropy := 0, tol := 0,
    nodeCount := 0, loopDepth := 0, required := [], patterns := [] }

def cexCfg : Cfg := { H := ['h'], t := cexT, fromSnapshot := false }
def cexKV0 : KV := applyBatch [] (addOps [] (cexSig ['a'] ['h']))
def cexW0 : World := { versions := [cexKV0], thr := 0, tol := 1 }
def cexEvs : List Ev := [.reader, .reader, .reader, .commit (addOps cexKV0 (cexSig ['b'] ['g'])), .reader, .reader]

deriving instance DecidableEq for ReaderPhase

def cexR : List MatchResult :=
  [{ sigId := ['x'], sigName := ['b'], conf := .val (3/4), topoMatch := false, topoSim := 1/2,
     entropyMatch := true, entropyDist := 0, callsMatched := [], callsMissing := [], stringsMatched := [] }]

theorem cex_run : (runSchedule cexCfg cexW0 cexEvs).2 = .done cexR 0 0 1 := by decide +kernel
theorem cex_len : (runSchedule cexCfg cexW0 cexEvs).1.versions.length = 2 := by decide +kernel
theorem cex_0 : cexR ≠ scanFull (version (runSchedule cexCfg cexW0 cexEvs).1 0) cexCfg.H cexCfg.t 0 1 := by decide +kernel
theorem cex_1 : cexR ≠ scanFull (version (runSchedule cexCfg cexW0 cexEvs).1 1) cexCfg.H cexCfg.t 0 1 := by decide +kernel
theorem cex_nil : cexR ≠ scanFull [] cexCfg.H cexCfg.t 0 1 := by decide +kernel

/-- The variant that fetches records from the LIVE store instead of the snapshot (what replacing
    `snap.Get` by `s.db.Get` would do) is NOT linearisable: there is a schedule whose result is the
    pure scan of no version at all (an index entry of one version paired with the record of another). -/
theorem C11_mixed_read_counterexample :
    ∃ (c : Cfg) (w0 : World) (evs : List Ev) (r : List MatchResult) (snap : Nat) (thr tol : Rat),
      c.fromSnapshot = false ∧ w0.versions ≠ [] ∧ (runSchedule c w0 evs).2 = .done r snap thr tol ∧
      ∀ i, r ≠ scanFull (version (runSchedule c w0 evs).1 i) c.H c.t thr tol := by
  refine ⟨cexCfg, cexW0, cexEvs, cexR, 0, 0, 1, rfl, by simp [cexW0], cex_run, ?_⟩
  intro i
  match i with
  | 0 => exact cex_0
  | 1 => exact cex_1
  | (k + 2) =>
    have hv : version (runSchedule cexCfg cexW0 cexEvs).1 (k + 2) = [] := by
      unfold version
      rw [List.getElem?_eq_none (by rw [cex_len]; omega)]
      rfl
    rw [hv]
    exact cex_nil

end Sfw.Concurrent
