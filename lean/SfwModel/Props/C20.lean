/-
  C20 — The signature database is never opened inside protected system directories.
  Theorems about the guard model (Model/PathGuard.lean) over an abstract file system with symlinks.
-/
import SfwModel.Model.PathGuard
import SfwModel.Lemmas.PathGuardWalk
import Mathlib.Tactic.SplitIfs
namespace Sfw.PathGuard

/-- The guard's decision, spelled out: it refuses exactly when the resolved location lies
    (component-wise) inside a protected directory or inside what that directory resolves to. -/
theorem C20_guard_refuses_iff (fs : FS) (cwd : Path) (p : Str) :
    guard fs cwd p = .refused ↔
      ∃ loc, resolveLoc fs cwd p = .ok loc ∧
        ∃ d ∈ protectedDirs, inside loc d = true ∨
          (∃ r, evalSym fs stepFuel 0 [] d = .ok r ∧ inside loc r = true) := by
  unfold guard
  cases h : resolveLoc fs cwd p with
  | ok loc =>
    simp only []
    constructor
    · intro hg
      split_ifs at hg with hany
      obtain ⟨d, hd, hcond⟩ := List.any_eq_true.mp hany
      refine ⟨loc, rfl, d, hd, ?_⟩
      rw [Bool.or_eq_true] at hcond
      rcases hcond with h1 | h2
      · exact Or.inl h1
      · right
        cases he : evalSym fs stepFuel 0 [] d with
        | ok r => rw [he] at h2; exact ⟨r, rfl, h2⟩
        | notExist => rw [he] at h2; cases h2
        | otherErr => rw [he] at h2; cases h2
    · rintro ⟨loc', hloc, d, hd, hcond⟩
      injection hloc with hloc
      subst hloc
      rw [if_pos]
      refine List.any_eq_true.mpr ⟨d, hd, ?_⟩
      rw [Bool.or_eq_true]
      rcases hcond with h1 | ⟨r, he, h2⟩
      · exact Or.inl h1
      · right; rw [he]; exact h2
  | notExist => simp
  | otherErr => simp

/-- Locations outside are not refused on these grounds: if the resolved location is inside no
    protected directory (nor its resolved form), the guard passes. -/
theorem C20_guard_passes_outside (fs : FS) (cwd : Path) (p : Str) (loc : Path)
    (h : resolveLoc fs cwd p = .ok loc)
    (hout : ∀ d ∈ protectedDirs, inside loc d = false ∧
       ∀ r, evalSym fs stepFuel 0 [] d = .ok r → inside loc r = false) :
    guard fs cwd p = .pass := by
  unfold guard
  rw [h]
  simp only []
  rw [if_neg]
  intro hany
  obtain ⟨d, hd, hcond⟩ := List.any_eq_true.mp hany
  obtain ⟨h1, h2⟩ := hout d hd
  rw [Bool.or_eq_true, h1] at hcond
  rcases hcond with hc | hc
  · cases hc
  · cases he : evalSym fs stepFuel 0 [] d with
    | ok r => rw [he] at hc; simp only [] at hc; rw [h2 r he] at hc; cases hc
    | notExist => rw [he] at hc; cases hc
    | otherErr => rw [he] at hc; cases hc

/-! ### component-wise containment vs. the string test -/

private def R (l : Path) : Str := l.flatMap (fun c => '/' :: c)

private def SlashHead (x : Str) : Prop := x = [] ∨ ∃ x', x = '/' :: x'

private theorem slashfree_split (a : Str) : ∀ (b x y : Str), '/' ∉ a → '/' ∉ b →
    SlashHead x → SlashHead y → a ++ x = b ++ y → a = b ∧ x = y := by
  induction a with
  | nil =>
    intro b x y _ hb hx _ h
    cases b with
    | nil => exact ⟨rfl, h⟩
    | cons d b' =>
      rcases hx with rfl | ⟨x', rfl⟩
      · cases h
      · simp only [List.nil_append, List.cons_append] at h
        injection h with h1 _
        subst h1
        exact absurd List.mem_cons_self hb
  | cons c a' ih =>
    intro b x y ha hb hx hy h
    cases b with
    | nil =>
      rcases hy with rfl | ⟨y', rfl⟩
      · cases h
      · simp only [List.nil_append, List.cons_append] at h
        injection h with h1 _
        subst h1
        exact absurd List.mem_cons_self ha
    | cons d b' =>
      simp only [List.cons_append] at h
      injection h with h1 h2
      subst h1
      obtain ⟨e1, e2⟩ := ih b' x y (fun hm => ha (List.mem_cons_of_mem _ hm))
        (fun hm => hb (List.mem_cons_of_mem _ hm)) hx hy h2
      exact ⟨by rw [e1], e2⟩

private theorem R_cons (c : Str) (l : Path) : R (c :: l) = '/' :: (c ++ R l) := by
  simp [R, List.flatMap_cons]

private theorem R_append (a b : Path) : R (a ++ b) = R a ++ R b := by
  simp [R, List.flatMap_append]

private theorem R_slashHead (l : Path) (s : Str) (hs : SlashHead s) : SlashHead (R l ++ s) := by
  cases l with
  | nil => exact hs
  | cons c l' => right; rw [R_cons]; exact ⟨_, rfl⟩

private theorem R_prefix (l1 : Path) : ∀ (l2 : Path) (s : Str),
    (∀ c ∈ l1, '/' ∉ c) → (∀ c ∈ l2, '/' ∉ c) → SlashHead s → R l1 ++ s = R l2 → l1 <+: l2 := by
  induction l1 with
  | nil => intro l2 _ _ _ _ _; exact List.nil_prefix
  | cons a l1' ih =>
    intro l2 s h1 h2 hs h
    cases l2 with
    | nil => rw [R_cons] at h; cases h
    | cons b l2' =>
      rw [R_cons, R_cons, List.cons_append, List.append_assoc] at h
      injection h with _ h
      obtain ⟨e1, e2⟩ := slashfree_split a b _ _ (h1 a List.mem_cons_self) (h2 b List.mem_cons_self)
        (R_slashHead l1' s hs) (by have := R_slashHead l2' [] (Or.inl rfl); rwa [List.append_nil] at this) h
      subst e1
      have := ih l2' s (fun c hc => h1 c (List.mem_cons_of_mem _ hc))
        (fun c hc => h2 c (List.mem_cons_of_mem _ hc)) hs e2
      exact (List.cons_prefix_cons).mpr ⟨rfl, this⟩

private theorem render_ne_nil (l : Path) (h : l ≠ []) : render l = R l := by
  cases l with
  | nil => exact absurd rfl h
  | cons c l' => rfl

/-- Component-wise containment is what the string test `loc == dir || HasPrefix(loc, dir + "/")`
    computes on rendered clean paths (components non-empty and slash-free). -/
theorem C20_inside_iff_string (loc dir : Path)
    (hl : ∀ c ∈ loc, c ≠ [] ∧ '/' ∉ c) (hd : ∀ c ∈ dir, c ≠ [] ∧ '/' ∉ c) (hne : dir ≠ []) :
    inside loc dir = true ↔ (render loc = render dir ∨ (render dir ++ ['/']).isPrefixOf (render loc) = true) := by
  unfold inside
  rw [List.isPrefixOf_iff_prefix, List.isPrefixOf_iff_prefix, render_ne_nil dir hne]
  -- `R dir` has at least two characters
  have hdir2 : ∀ t, R dir ++ t ≠ ['/'] := by
    intro t
    cases dir with
    | nil => exact absurd rfl hne
    | cons d ds =>
      rw [R_cons]
      have hdne := (hd d List.mem_cons_self).1
      cases d with
      | nil => exact absurd rfl hdne
      | cons x xs => intro h; simp at h
  constructor
  · rintro ⟨t, rfl⟩
    have : dir ++ t ≠ [] := by simp [hne]
    rw [render_ne_nil _ this, R_append]
    cases t with
    | nil => left; simp [R]
    | cons c t' =>
      right
      rw [R_cons]
      exact ⟨c ++ R t', by simp⟩
  · intro h
    by_cases hloc : loc = []
    · subst hloc
      have hr : render [] = ['/'] := rfl
      rw [hr] at h
      rcases h with h | ⟨t, h⟩
      · exact absurd (by rw [List.append_nil]; exact h.symm) (hdir2 [])
      · rw [List.append_assoc] at h; exact absurd h (hdir2 _)
    · rw [render_ne_nil loc hloc] at h
      rcases h with h | ⟨t, h⟩
      · exact R_prefix dir loc [] (fun c hc => (hd c hc).2) (fun c hc => (hl c hc).2) (Or.inl rfl)
          (by rw [List.append_nil]; exact h.symm)
      · rw [List.append_assoc] at h
        exact R_prefix dir loc (['/'] ++ t) (fun c hc => (hd c hc).2) (fun c hc => (hl c hc).2)
          (Or.inr ⟨t, rfl⟩) h

/-- What was wrong with the raw string-prefix test of the old guard: it refuses `/etcetera`,
    which is inside no protected directory. -/
theorem C20_old_guard_lookalike :
    oldGuardRefuses "/etcetera/db".toList = true ∧
    (∀ d ∈ protectedDirs, inside ["etcetera".toList, "db".toList] d = false) := by
  decide

/-- Lexical case: when no component of the absolute path exists below the root except
    directories (no symlink is met), and the path has no ".." segment, the resolved location is
    the lexically cleaned path — so a missing leaf under an existing directory is located there.
    (`hnodots` is not needed for the proof; it is kept because it is part of the stated claim.) -/
theorem C20_resolve_no_symlink (fs : FS) (comps : List Str)
    (hnodots : ['.', '.'] ∉ comps)
    (hdir : ∀ q, ∀ n, fs.lookup q = some n → n = .dir)
    (hlen : 2 * comps.length + 2 ≤ stepFuel) :
    resolveFrom fs comps comps.length = .ok (joinClean [] comps) := by
  have _ := hnodots
  have key : ∀ k, k ≤ comps.length → resolveFrom fs comps k = .ok (joinClean [] comps) := by
    intro k
    induction k with
    | zero => intro _; exact resolveFrom_zero fs comps
    | succ k ih =>
      intro hk
      have hl : (comps.take (k + 1)).length < stepFuel := by rw [List.length_take]; omega
      rcases walk_alldirs fs hdir stepFuel 0 [] (comps.take (k + 1)) hl with h | h
      · rw [← evalSym_eq_walk] at h
        rw [resolveFrom_ok _ _ _ _ h, ← joinClean_append, List.take_append_drop]
      · rw [← evalSym_eq_walk] at h
        rw [resolveFrom_notExist _ _ _ h]; exact ih (by omega)
  exact key _ (Nat.le_refl _)

/-! ### agreement with one physical walk

  ORIGINAL statement (FALSE as written, see `C20_resolve_eq_real_original_false` below):

    theorem C20_resolve_eq_real (fs : FS) (cwd : Path) (p : Str) (loc : Path)
        (hreal : realLocation fs cwd p = .ok loc)
        (hnodangling : ∀ q tgt, fs.lookup q = some (.link tgt) →
            ∃ r, evalSym fs stepFuel 0 q.dropLast (splitSlash tgt) = .ok r)
        (hbudget : ∀ k, k ≤ (absComps cwd p).length →
            evalSym fs stepFuel 0 [] ((absComps cwd p).take k) ≠ .otherErr) :
        resolveLoc fs cwd p = .ok loc

  `hnodangling` resolves every link target from the link's parent directory, also when the target
  is ABSOLUTE; the walk (Go and the model) restarts an absolute target at the root.  So an
  absolute dangling link whose target happens to resolve when misread as relative satisfies the
  hypothesis.  Counterexample: /d dir, /d/m dir, /d/L -> "/m" (and no /m); p = "/d/L".
  One physical walk: /d, L -> restart at /, "m" is missing  ==> location /m.
  Prefix retry: "/d/L" ENOENT, "/d" exists               ==> location /d/L.

  Correction: the target is resolved from where the walk resolves it
  (`if isAbs tgt then [] else q.dropLast`).  With that, `hbudget` is not needed at all: it
  follows from `hreal` (`C20_real_ok_prefix_budget`).
-/

private def cexFS : FS :=
  [(["d".toList], .dir), (["d".toList, "L".toList], .link "/m".toList),
   (["d".toList, "m".toList], .dir)]

theorem C20_resolve_eq_real_original_false :
    ¬ (∀ (fs : FS) (cwd : Path) (p : Str) (loc : Path),
        realLocation fs cwd p = .ok loc →
        (∀ q tgt, fs.lookup q = some (.link tgt) →
            ∃ r, evalSym fs stepFuel 0 q.dropLast (splitSlash tgt) = .ok r) →
        (∀ k, k ≤ (absComps cwd p).length →
            evalSym fs stepFuel 0 [] ((absComps cwd p).take k) ≠ .otherErr) →
        resolveLoc fs cwd p = .ok loc) := by
  intro H
  have h := H cexFS [] "/d/L".toList ["m".toList] (by decide)
    (by
      intro q tgt hq
      have hq' : q = ["d".toList, "L".toList] ∧ tgt = "/m".toList := by
        simp only [FS.lookup, cexFS, List.find?] at hq
        split at hq
        · cases hq
        · split at hq
          · rename_i _ _ h2
            simp only [Option.map_some, Option.some.injEq, Node.link.injEq] at hq
            exact ⟨(of_decide_eq_true h2).symm, hq.symm⟩
          · split at hq <;> cases hq
      obtain ⟨rfl, rfl⟩ := hq'
      exact ⟨["d".toList, "m".toList], by decide⟩)
    (by decide)
  revert h
  decide

/-- A prefix of a path whose physical walk succeeds never runs into a budget/ENOTDIR error:
    the `hbudget` hypothesis of the original statement is a consequence of `hreal`. -/
theorem C20_real_ok_prefix_budget (fs : FS) (cwd : Path) (p : Str) (loc : Path)
    (hreal : realLocation fs cwd p = .ok loc) (k : Nat) :
    evalSym fs stepFuel 0 [] ((absComps cwd p).take k) ≠ .otherErr := by
  intro h
  rw [evalSym_eq_walk] at h
  have := walk_otherErr_append fs _ _ _ _ h missR ((absComps cwd p).drop k)
  rw [List.take_append_drop, ← realWalk_eq_walk] at this
  unfold realLocation at hreal
  rw [hreal] at this
  cases this

/-- Main agreement theorem: on a file system without dangling symlinks (every link target
    resolves, within the budgets, from where the walk resolves it: the root for an absolute
    target, the link's directory otherwise), the guard's "EvalSymlinks on ever shorter prefixes"
    computes the same location as ONE physical walk that falls back to lexical joining at the
    first missing component (what mkdir -p / open would do).  `hreal` already says that the
    physical walk stays within the step and link budgets. -/
theorem C20_resolve_eq_real (fs : FS) (cwd : Path) (p : Str) (loc : Path)
    (hreal : realLocation fs cwd p = .ok loc)
    (hnodangling : ∀ q tgt, fs.lookup q = some (.link tgt) →
        ∃ r, evalSym fs stepFuel 0 (if isAbs tgt then [] else q.dropLast) (splitSlash tgt) = .ok r) :
    resolveLoc fs cwd p = .ok loc :=
  resolveFrom_eq_real fs (absComps cwd p) loc hreal hnodangling

end Sfw.PathGuard
