/-
  C15 — regenerated tie: every place where the product hands untrusted code to the Go package loader
  builds its `packages.Config` with `Env` set to the hardened environment ITSELF (the function the
  theorems of Props/C15.lean are about), not to something derived from it.
-/
import SfwModel.Generated.Facts
namespace Sfw.Facts

theorem C15_every_loader_uses_the_hardened_env :
    loaderEnvs = ["internal/cli/scan.go:Env=diff.GetHardenedEnv()",
                  "pkg/diff/fingerprinter.go:Env=GetHardenedEnv()"] := by decide

end Sfw.Facts
