/-
  C01 — regenerated tie: facts that the go/ast extractor reads from the CURRENT source
  (Generated/Facts.lean, rewritten by every check run) against hand-written expectations.
  A change that adds per-function state to the pooled Canonicalizer without resetting it, a new
  package-level variable in the analysis packages, or a new `for range` over a map makes one of
  these `decide` proofs fail, i.e. breaks the build of this module.
-/
import SfwModel.Generated.Facts
namespace Sfw.Facts

/-- fields that are NOT cleared by fullReset, with the reason each is harmless:
    Policy — assigned by AcquireCanonicalizer on every acquisition;
    StrictMode — assigned by GenerateFingerprint before every canonicalisation; only selects
                 panic-vs-placeholder for unhandled instructions;
    scratch — a strings.Builder that processInstruction Reset()s before every use -/
def canonNotResetOk : List String := ["Policy", "StrictMode", "scratch"]

/-- every field of the pooled Canonicalizer is re-initialised by fullReset (which both
    AcquireCanonicalizer and ReleaseCanonicalizer call) or is on the reviewed list above -/
theorem C01_reset_covers_fields :
    ∀ f ∈ canonFields, f ∈ canonFullResetTouched ∨ f ∈ canonNotResetOk := by decide

/-- CanonicalizeFunction starts with resetScratch: every map-typed field except the two virtual
    control-flow inputs (installed by the caller for this very function) is cleared there -/
theorem C01_scratch_reset_covers_maps :
    ∀ f ∈ canonMapFields, f ∈ canonScratchResetTouched ∨ f ∈ ["virtualBlocks", "virtualBinOps"] := by
  decide

/-- the only process-wide variable of the analysis packages is the pool itself -/
theorem C01_no_process_state :
    analysisGlobals = ["pkg/analysis/ir/canonicalizer.go:canonicalizerPool"] := by decide

/-- reviewed `for range` statements over Go maps, each with the reason its iteration order cannot
    reach the output -/
def reviewedMapRanges : List String :=
  [ -- keys are collected into a slice that is sorted by block index before use
    "pkg/analysis/ir/canonicalizer.go:Canonicalizer.ApplyVirtualControlFlowFromState:swappedBlocks",
    -- copies entries into another map (order-free)
    "pkg/analysis/ir/canonicalizer.go:Canonicalizer.ApplyVirtualControlFlowFromState:virtualBinOps",
    -- per-block / per-IV marking of instructions in maps; no output, no counter (C01 mechanism 4;
    -- the Lean canonicaliser iterates in index order and agrees byte for byte on the corpus)
    "pkg/analysis/ir/canonicalizer.go:Canonicalizer.normalizeInductionVariablesRecursive:l.Blocks",
    "pkg/analysis/ir/canonicalizer.go:Canonicalizer.normalizeInductionVariablesRecursive:l.Inductions",
    -- delete-all loops of the reset functions
    "pkg/analysis/ir/canonicalizer.go:Canonicalizer.resetConfig:c.virtualBinOps",
    "pkg/analysis/ir/canonicalizer.go:Canonicalizer.resetConfig:c.virtualBlocks",
    "pkg/analysis/ir/canonicalizer.go:Canonicalizer.resetScratch:c.VirtualizedInstrs",
    "pkg/analysis/ir/canonicalizer.go:Canonicalizer.resetScratch:c.blockMap",
    "pkg/analysis/ir/canonicalizer.go:Canonicalizer.resetScratch:c.hoistedInstrs",
    "pkg/analysis/ir/canonicalizer.go:Canonicalizer.resetScratch:c.registerMap",
    "pkg/analysis/ir/canonicalizer.go:Canonicalizer.resetScratch:c.sunkInstrs",
    "pkg/analysis/ir/canonicalizer.go:Canonicalizer.resetScratch:c.virtualInstrs",
    "pkg/analysis/ir/canonicalizer.go:Canonicalizer.resetScratch:c.virtualPhiConstants",
    "pkg/analysis/ir/canonicalizer.go:Canonicalizer.resetScratch:c.virtualSubstitutions",
    -- exits are collected and then sorted by block index
    "pkg/analysis/loop/loops.go:DetectLoops:loop.Blocks",
    -- names are collected and sorted (fix "diff matches functions in sorted name order")
    "pkg/diff/topology_match.go:MatchFunctionsByTopology:newByName",
    "pkg/diff/topology_match.go:MatchFunctionsByTopology:oldByName",
    -- keys are collected and sorted
    "internal/cli/scan.go:RunScanDeps:depPkgs",
    -- members are processed in map order, results are appended and then sorted by function name
    -- (names are unique within a program: C10_sort_perm_invariant applies)
    "pkg/diff/fingerprinter.go:FingerprintPackages:ssaPkg.Members",
    -- alerts are appended in map order and sorted with the total key by RunScanLogic; the function
    -- counter is order-free
    "internal/cli/scan.go:RunScanDeps:ssaPkg.Members",
    -- computes a reachability set into a map keyed by import path (order-free)
    "internal/cli/scan.go:collectDependencies:pkg.Imports" ]

/-- no `for range` over a map in the analysis or report code that has not been reviewed -/
theorem C01_map_ranges_reviewed : ∀ s ∈ mapRangeSites, s ∈ reviewedMapRanges := by decide

/-- FingerprintPackages sorts its results by function name -/
theorem C01_results_sorted : fingerprintPackagesSorts = ["yes"] := by decide

end Sfw.Facts
