/-
  C13 — The commit audit fails closed; the untrusted commit message cannot close or forge its envelope.
-/
import SfwModel.Model.Audit
import SfwModel.Lemmas.JsonLex
import Mathlib.Tactic.SplitIfs
namespace Sfw.Audit
open Sfw Sfw.Json

/-- exit status is 0 or 1, and it is 0 exactly for the printed verdicts "MATCH" / "preserved" -/
theorem C13_exit_total (v : Str) : (exitOf v = 0 ∨ exitOf v = 1) ∧
    (exitOf v = 0 ↔ (v = "MATCH".toList ∨ v = "preserved".toList)) := by
  unfold exitOf
  split_ifs with h
  · exact ⟨Or.inl rfl, fun _ => h, fun _ => rfl⟩
  · exact ⟨Or.inr rfl, fun h0 => absurd h0 (by decide), fun h1 => absurd h1 h⟩

private theorem exitOf_eq_zero {v : Str} (h : exitOf v = 0) :
    v = "MATCH".toList ∨ v = "preserved".toList :=
  (C13_exit_total v).2.1 h

/-- `C13_verdict_exact`, stated early because `C13_fail_closed` needs it -/
private theorem verdict_exact_aux (r : LLMResult) (h : exitOf r.verdict = 0)
    (hv : outputValid r = true) : r.verdict = "MATCH".toList := by
  rcases exitOf_eq_zero h with h1 | h1
  · exact h1
  · exfalso
    unfold outputValid at hv
    rw [h1] at hv
    revert hv
    cases infixOf "ignore previous".toList (toLowerAscii r.evidence) <;>
    cases infixOf "system prompt".toList (toLowerAscii r.evidence) <;> decide

/-- the fixed verdict strings of `CallLLM` itself never exit 0 -/
private theorem exitOf_verdict_cases {v : Verdict} (h : exitOf (verdictString v) = 0) :
    ∃ r, v = .result r ∧ exitOf r.verdict = 0 := by
  cases v with
  | result r => exact ⟨r, rfl, h⟩
  | error => exact absurd h (by decide)
  | lie => exact absurd h (by decide)
  | suspicious => exact absurd h (by decide)

/-- Fail closed: the audit exits 0 only if no high-risk change was found, or the sentinel call
    produced a text that decodes to `safe = true` AND the main call produced a text that decodes to
    a result whose verdict is EXACTLY "MATCH" and passes output validation. -/
theorem C13_fail_closed (highRisk : Bool) (sr mr : List Resp)
    (h : (runAudit highRisk sr mr).2 = 0) :
    highRisk = false ∨
    (∃ st sen mt r, (callRaw maxAttempts sr).1 = .text st ∧ decodeSentinel (cleanJSONMarkdown st) = .ok sen ∧
        sen.safe = true ∧ (callRaw maxAttempts mr).1 = .text mt ∧
        decodeLLMResult (cleanJSONMarkdown mt) = .ok r ∧ r.verdict = "MATCH".toList ∧ outputValid r = true) := by
  cases highRisk with
  | false => exact Or.inl rfl
  | true =>
    right
    simp only [runAudit, Bool.not_true, Bool.false_eq_true, if_false] at h
    obtain ⟨r, hr, hex⟩ := exitOf_verdict_cases h
    unfold callLLM at hr
    rcases hs : callRaw maxAttempts sr with ⟨so, k1⟩
    rcases hm : callRaw maxAttempts mr with ⟨mo, k2⟩
    rw [hs] at hr
    simp only [] at hr
    cases so with
    | text st =>
      simp only [] at hr
      cases hd : decodeSentinel (cleanJSONMarkdown st) with
      | err => rw [hd] at hr; simp at hr
      | ok sen =>
        rw [hd] at hr
        simp only [] at hr
        cases hsafe : sen.safe with
        | false => rw [hsafe] at hr; simp at hr
        | true =>
          rw [hsafe, hm] at hr
          simp only [Bool.not_true, Bool.false_eq_true, if_false] at hr
          cases mo with
          | text mt =>
            simp only [] at hr
            cases hd2 : decodeLLMResult (cleanJSONMarkdown mt) with
            | err => rw [hd2] at hr; simp at hr
            | ok r' =>
              rw [hd2] at hr
              simp only [] at hr
              cases hov : outputValid r' with
              | false => rw [hov] at hr; simp at hr
              | true =>
                rw [hov] at hr
                simp only [if_true] at hr
                have : r' = r := by injection hr
                subst this
                exact ⟨st, sen, mt, r', rfl, hd, hsafe, rfl, hd2, verdict_exact_aux r' hex hov, hov⟩
          | fatal => simp at hr
          | exhausted => simp at hr
    | fatal => simp at hr
    | exhausted => simp at hr

/-- a provider response is a fault when it is a transport error or a non-200 status -/
def isFault : Resp → Bool
  | .transportErr => true
  | .http status _ => status ≠ 200

/-- If every response of a call is a fault the call yields no text. -/
theorem C13_faults_no_text (n : Nat) (l : List Resp) (h : ∀ r ∈ l, isFault r = true) :
    ∀ t, (callRaw n l).1 ≠ .text t := by
  induction n generalizing l with
  | zero => intro t; simp [callRaw]
  | succ n ih =>
    cases l with
    | nil => intro t; simp [callRaw]
    | cons r rest =>
      have hr := h r (by simp)
      have hrest : ∀ r ∈ rest, isFault r = true := fun x hx => h x (by simp [hx])
      cases r with
      | transportErr =>
        intro t
        simp only [callRaw]
        exact ih rest hrest t
      | http status body =>
        intro t
        simp only [callRaw]
        have hs : status ≠ 200 := by simpa [isFault] using hr
        split_ifs
        · exact ih rest hrest t
        · simp

/-- Every provider fault on either call yields a non-passing verdict and a non-zero status. -/
theorem C13_faults_never_pass (sr mr : List Resp)
    (h : (∀ r ∈ sr, isFault r = true) ∨ (∀ r ∈ mr, isFault r = true)) :
    (runAudit true sr mr).2 = 1 := by
  rcases (C13_exit_total (runAudit true sr mr).1).1 with h0 | h1
  · exfalso
    have h0' : (runAudit true sr mr).2 = 0 := h0
    rcases C13_fail_closed true sr mr h0' with hc | ⟨st, sen, mt, r, h1, _, _, h2, _⟩
    · cases hc
    · rcases h with h | h
      · exact C13_faults_no_text _ _ h _ h1
      · exact C13_faults_no_text _ _ h _ h2
  · exact h1

/-- at most four requests per call, whatever the provider does -/
theorem C13_retry_bound (n : Nat) (l : List Resp) : (callRaw n l).2 ≤ n := by
  induction n generalizing l with
  | zero => simp [callRaw]
  | succ n ih =>
    cases l with
    | nil => simp [callRaw]
    | cons r rest =>
      cases r with
      | transportErr =>
        simp only [callRaw]
        have := ih rest
        omega
      | http status body =>
        simp only [callRaw]
        split_ifs
        · have := ih rest
          simp only []
          omega
        · simp
        · split <;> simp

/-- lower-case or otherwise different verdicts never exit 0 even though `validateOutput`
    upper-cases before checking -/
theorem C13_verdict_exact (r : LLMResult) (h : exitOf r.verdict = 0) (hv : outputValid r = true) :
    r.verdict = "MATCH".toList :=
  verdict_exact_aux r h hv

/-- The encoder's output never contains a raw quote that is not escaped, a raw newline, or any
    control character: the commit message stays one JSON string. -/
theorem C13_escape_no_newline (s : Str) : '\n' ∉ jsonEscape s :=
  jsonEscape_no_nl s

/-- Lexing the quoted message gives back exactly the message and stops exactly at its closing
    quote, whatever follows: the message cannot close the string it sits in. -/
theorem C13_lex_roundtrip (s rest : Str) : lexString (quote s ++ rest) = some (s, rest) :=
  lexString_quote s rest

def lines (s : Str) : List Str := splitOnChar '\n' s
where
  splitOnChar (c : Char) (s : Str) : List Str :=
    let rec go : Str → Str → List Str → List Str
      | [], cur, acc => (cur.reverse :: acc).reverse
      | x :: xs, cur, acc => if x = c then go xs [] (cur.reverse :: acc) else go xs (x :: cur) acc
    go s [] []

/-! #### `lines` splits at every newline -/

private theorem lines_eq (s : Str) : lines s = lines.splitOnChar.go '\n' s [] [] := rfl

private theorem go_acc (c : Char) : ∀ (xs cur : Str) (acc : List Str),
    lines.splitOnChar.go c xs cur acc = acc.reverse ++ lines.splitOnChar.go c xs cur [] := by
  intro xs
  induction xs with
  | nil => intro cur acc; simp [lines.splitOnChar.go]
  | cons x xs ih =>
    intro cur acc
    simp only [lines.splitOnChar.go]
    split_ifs with h
    · rw [ih [] (cur.reverse :: acc), ih [] [cur.reverse]]; simp
    · exact ih (x :: cur) acc

private theorem go_append (c : Char) : ∀ (a b cur : Str) (acc : List Str),
    lines.splitOnChar.go c (a ++ c :: b) cur acc =
      lines.splitOnChar.go c a cur acc ++ lines.splitOnChar.go c b [] [] := by
  intro a
  induction a with
  | nil =>
    intro b cur acc
    simp only [List.nil_append, lines.splitOnChar.go, if_true]
    rw [go_acc]
  | cons x xs ih =>
    intro b cur acc
    simp only [List.cons_append, lines.splitOnChar.go]
    split_ifs with h
    · exact ih b [] _
    · exact ih b _ _

private theorem go_no_sep (c : Char) : ∀ (a cur : Str) (acc : List Str), c ∉ a →
    lines.splitOnChar.go c a cur acc = ((a.reverse ++ cur).reverse :: acc).reverse := by
  intro a
  induction a with
  | nil => intro cur acc _; simp [lines.splitOnChar.go]
  | cons x xs ih =>
    intro cur acc h
    simp only [List.mem_cons, not_or] at h
    simp only [lines.splitOnChar.go]
    rw [if_neg (fun e => h.1 e.symm), ih _ _ h.2]
    simp

private theorem lines_append_nl (a b : Str) : lines (a ++ '\n' :: b) = lines a ++ lines b := by
  simp only [lines_eq]; exact go_append _ _ _ _ _

private theorem lines_no_nl (a : Str) (h : '\n' ∉ a) : lines a = [a] := by
  rw [lines_eq, go_no_sep _ _ _ _ h]; simp


/-! #### a compositional "every line starts with '{', '}' or ' '" check

  `nlSafe f`: every newline inside the fragment `f` is followed (inside `f`) by one of the three
  characters; it is preserved by `++`, holds for newline-free fragments, and is decidable on
  literals. -/

private def okc (c : Char) : Bool := c = '{' || c = '}' || c = ' '

private def startOk : Str → Bool
  | [] => false
  | d :: _ => okc d

private def nlSafe : Str → Bool
  | [] => true
  | c :: rest => (c != '\n' || startOk rest) && nlSafe rest

private theorem startOk_append {f : Str} (g : Str) (h : startOk f = true) : startOk (f ++ g) = true := by
  cases f with
  | nil => simp [startOk] at h
  | cons d r => simpa [startOk] using h

private theorem nlSafe_append {f g : Str} (hf : nlSafe f = true) (hg : nlSafe g = true) :
    nlSafe (f ++ g) = true := by
  induction f with
  | nil => simpa using hg
  | cons c r ih =>
    simp only [nlSafe, Bool.and_eq_true, Bool.or_eq_true] at hf
    simp only [List.cons_append, nlSafe, Bool.and_eq_true, Bool.or_eq_true]
    refine ⟨?_, ih hf.2⟩
    rcases hf.1 with h | h
    · exact Or.inl h
    · exact Or.inr (startOk_append g h)

private theorem nlSafe_of_no_nl {f : Str} (h : '\n' ∉ f) : nlSafe f = true := by
  induction f with
  | nil => rfl
  | cons c r ih =>
    simp only [List.mem_cons, not_or] at h
    simp only [nlSafe, Bool.and_eq_true, Bool.or_eq_true]
    refine ⟨Or.inl ?_, ih h.2⟩
    simpa using fun e => h.1 e.symm

private theorem startOk_head {l : Str} (h : startOk l = true) :
    l.head? = some '{' ∨ l.head? = some '}' ∨ l.head? = some ' ' := by
  cases l with
  | nil => simp [startOk] at h
  | cons d r => simpa [startOk, okc, or_assoc] using h

private theorem go_startOk : ∀ (s cur : Str) (acc : List Str),
    (∀ l ∈ acc, startOk l = true) → nlSafe s = true →
    (if cur = [] then startOk s = true else startOk cur.reverse = true) →
    ∀ l ∈ lines.splitOnChar.go '\n' s cur acc, startOk l = true := by
  intro s
  induction s with
  | nil =>
    intro cur acc hacc _ hc l hl
    simp only [lines.splitOnChar.go, List.reverse_cons, List.mem_append, List.mem_reverse,
      List.mem_singleton] at hl
    rcases hl with hl | hl
    · exact hacc l hl
    · subst hl
      split_ifs at hc with h0
      · simp [startOk] at hc
      · exact hc
  | cons x xs ih =>
    intro cur acc hacc hs hc
    simp only [nlSafe, Bool.and_eq_true, Bool.or_eq_true] at hs
    simp only [lines.splitOnChar.go]
    have hcur : x = '\n' → startOk cur.reverse = true := by
      intro hx
      split_ifs at hc with h0
      · subst hx; simp [startOk, okc] at hc
      · exact hc
    split_ifs with hx
    · apply ih [] (cur.reverse :: acc)
      · intro l hl
        simp only [List.mem_cons] at hl
        rcases hl with hl | hl
        · subst hl; exact hcur hx
        · exact hacc l hl
      · exact hs.2
      · simp only [if_true]
        rcases hs.1 with h | h
        · subst hx; simp at h
        · exact h
    · apply ih (x :: cur) acc hacc hs.2
      rw [if_neg (by simp)]
      split_ifs at hc with h0
      · subst h0; simpa [startOk] using hc
      · rw [List.reverse_cons]; exact startOk_append _ hc

private theorem lines_startOk (s : Str) (h1 : startOk s = true) (h2 : nlSafe s = true) :
    ∀ l ∈ lines s, startOk l = true :=
  go_startOk s [] [] (by simp) h2 (by simpa using h1)


private theorem int_toString_no_nl (i : Int) : '\n' ∉ (toString i).toList := by
  have hnat : ∀ n : Nat, '\n' ∉ (Nat.repr n).toList := by
    intro n h
    rw [Nat.toList_repr] at h
    have := Nat.isDigit_of_mem_toDigits (by decide) (by decide) h
    exact absurd this (by decide)
  show '\n' ∉ (Int.repr i).toList
  cases i with
  | ofNat m => exact hnat m
  | negSucc m =>
    simp only [Int.repr, String.toList_append, List.mem_append, not_or]
    exact ⟨by decide, hnat _⟩

private theorem evidenceJson_eq (e : Evidence) : evidenceJson e =
    "    {\n      \"function\": ".toList ++ (quote e.function ++
    (",\n      \"risk_score\": ".toList ++ ((toString e.riskScore).toList ++
    (",\n      \"structural_delta\": ".toList ++ (quote e.delta ++
    (",\n      \"added_operations\": ".toList ++ (quote e.addedOps ++ "\n    }".toList))))))) := by
  unfold evidenceJson
  simp only [String.reduceToList, List.append_assoc, List.cons_append, List.nil_append]

private theorem evidenceJson_safe (e : Evidence) :
    startOk (evidenceJson e) = true ∧ nlSafe (evidenceJson e) = true := by
  rw [evidenceJson_eq]
  refine ⟨rfl, ?_⟩
  refine nlSafe_append (by decide) (nlSafe_append (nlSafe_of_no_nl (quote_no_nl _)) ?_)
  refine nlSafe_append (by decide) (nlSafe_append (nlSafe_of_no_nl (int_toString_no_nl _)) ?_)
  refine nlSafe_append (by decide) (nlSafe_append (nlSafe_of_no_nl (quote_no_nl _)) ?_)
  exact nlSafe_append (by decide) (nlSafe_append (nlSafe_of_no_nl (quote_no_nl _)) (by decide))

private theorem joinWith_safe (sep : Str) (hsep : sep = [',', '\n']) (e : Evidence) (l : List Evidence) :
    startOk (joinWith sep ((e :: l).map evidenceJson)) = true ∧
    nlSafe (joinWith sep ((e :: l).map evidenceJson)) = true := by
  induction l generalizing e with
  | nil => simpa [joinWith] using evidenceJson_safe e
  | cons e' l ih =>
    obtain ⟨h1, h2⟩ := ih e'
    obtain ⟨h3, h4⟩ := evidenceJson_safe e
    have e1 : joinWith sep ((e :: e' :: l).map evidenceJson) =
        evidenceJson e ++ (',' :: '\n' :: joinWith sep ((e' :: l).map evidenceJson)) := by
      subst hsep
      simp [joinWith]
    rw [e1]
    refine ⟨startOk_append _ h3, nlSafe_append h4 ?_⟩
    generalize joinWith sep ((e' :: l).map evidenceJson) = J at h1 h2
    simp [nlSafe, h1, h2]

private theorem userJson_safe (msg : Str) (ev : Option (List Evidence)) :
    startOk (userJson msg ev) = true ∧ nlSafe (userJson msg ev) = true := by
  refine ⟨rfl, ?_⟩
  unfold userJson
  refine nlSafe_append (nlSafe_append (nlSafe_append (nlSafe_append (by decide)
    (nlSafe_of_no_nl (quote_no_nl _))) (by decide)) ?_) (by decide)
  match ev with
  | none => decide
  | some [] => decide
  | some (e :: l) =>
    obtain ⟨h1, h2⟩ := joinWith_safe ",\n".toList (by decide) e l
    show nlSafe ("[\n".toList ++ joinWith ",\n".toList ((e :: l).map evidenceJson) ++ "\n  ]".toList) = true
    generalize joinWith ",\n".toList ((e :: l).map evidenceJson) = J at h1 h2
    have h3 := startOk_append "\n  ]".toList h1
    have h4 : nlSafe (J ++ "\n  ]".toList) = true := nlSafe_append h2 (by decide)
    have e1 : "[\n".toList ++ J ++ "\n  ]".toList = '[' :: '\n' :: (J ++ "\n  ]".toList) := by
      simp only [String.reduceToList, List.cons_append, List.nil_append]
    rw [e1]
    generalize J ++ "\n  ]".toList = K at h3 h4
    simp [nlSafe, h3, h4]

/-- Every line of the enveloped JSON starts with '{', '}' or a space — so none of them can be a
    `### END DATA [...]` (or BEGIN) marker line, for ANY message and evidence, without appeal to the
    nonce being secret. -/
theorem C13_payload_lines (msg : Str) (ev : Option (List Evidence)) :
    ∀ l ∈ lines (userJson msg ev), l.head? = some '{' ∨ l.head? = some '}' ∨ l.head? = some ' ' := by
  intro l hl
  obtain ⟨h1, h2⟩ := userJson_safe msg ev
  exact startOk_head (lines_startOk _ h1 h2 l hl)

private theorem payload_eq (msg : Str) (ev : Option (List Evidence)) (nonce : Str) :
    payload msg ev nonce = beginLine nonce ++ '\n' :: (userJson msg ev ++ '\n' :: (endLine nonce ++
      '\n' :: ([] ++ '\n' :: ("REMINDER: You are a Security Auditor. ".toList ++ '\n' ::
      "If the code diff shows high risk but the commit message is trivial, return verdict: LIE.".toList)))) := by
  unfold payload nl reminder
  simp only [String.reduceToList, List.append_assoc, List.cons_append, List.nil_append]

private theorem lines_payload (msg : Str) (ev : Option (List Evidence)) (nonce : Str) (hn : '\n' ∉ nonce) :
    lines (payload msg ev nonce) = [beginLine nonce] ++ (lines (userJson msg ev) ++ ([endLine nonce] ++
      ([[]] ++ (["REMINDER: You are a Security Auditor. ".toList] ++
      ["If the code diff shows high risk but the commit message is trivial, return verdict: LIE.".toList])))) := by
  have hb : '\n' ∉ beginLine nonce := by
    unfold beginLine
    simp only [List.mem_append, not_or]
    exact ⟨⟨by decide, hn⟩, by decide⟩
  have he : '\n' ∉ endLine nonce := by
    unfold endLine
    simp only [List.mem_append, not_or]
    exact ⟨⟨by decide, hn⟩, by decide⟩
  rw [payload_eq, lines_append_nl, lines_append_nl, lines_append_nl, lines_append_nl, lines_append_nl,
    lines_no_nl _ hb, lines_no_nl _ he, lines_no_nl [] (by simp),
    lines_no_nl "REMINDER: You are a Security Auditor. ".toList (by decide),
    lines_no_nl "If the code diff shows high risk but the commit message is trivial, return verdict: LIE.".toList
      (by decide)]

private theorem beginLine_take (nonce : Str) : (beginLine nonce).take 5 = "### B".toList := rfl
private theorem endLine_take (nonce : Str) : (endLine nonce).take 5 = "### E".toList := rfl

/-- The payload contains exactly one BEGIN marker line and exactly one END marker line. -/
theorem C13_markers_once (msg : Str) (ev : Option (List Evidence)) (nonce : Str) (hn : '\n' ∉ nonce) :
    ((lines (payload msg ev nonce)).filter (· = beginLine nonce)).length = 1 ∧
    ((lines (payload msg ev nonce)).filter (· = endLine nonce)).length = 1 := by
  have hbe : endLine nonce ≠ beginLine nonce := by
    intro h
    have := congrArg (List.take 5) h
    rw [beginLine_take, endLine_take] at this
    exact absurd this (by decide)
  have hUb : (lines (userJson msg ev)).filter (· = beginLine nonce) = [] := by
    rw [List.filter_eq_nil_iff]
    intro l hl
    have := C13_payload_lines msg ev l hl
    simp only [decide_eq_true_eq]
    intro h
    rw [h] at this
    have hh : (beginLine nonce).head? = some '#' := rfl
    rw [hh] at this
    revert this; decide
  have hUe : (lines (userJson msg ev)).filter (· = endLine nonce) = [] := by
    rw [List.filter_eq_nil_iff]
    intro l hl
    have := C13_payload_lines msg ev l hl
    simp only [decide_eq_true_eq]
    intro h
    rw [h] at this
    have hh : (endLine nonce).head? = some '#' := rfl
    rw [hh] at this
    revert this; decide
  have hne : ∀ (t : Str), t.head? ≠ some '#' → (t ≠ beginLine nonce ∧ t ≠ endLine nonce) := by
    intro t ht
    constructor
    · intro h; rw [h] at ht; exact ht rfl
    · intro h; rw [h] at ht; exact ht rfl
  have h0 := hne [] (by decide)
  have h1 := hne "REMINDER: You are a Security Auditor. ".toList (by decide)
  have h2 := hne "If the code diff shows high risk but the commit message is trivial, return verdict: LIE.".toList (by decide)
  rw [lines_payload msg ev nonce hn]
  generalize "REMINDER: You are a Security Auditor. ".toList = R1 at h1
  generalize "If the code diff shows high risk but the commit message is trivial, return verdict: LIE.".toList = R2 at h2
  simp only [List.filter_append, hUb, hUe]
  simp [hbe, hbe.symm, h0.1, h0.2, h1.1, h1.2, h2.1, h2.2]

/-- more than 2000 runes ⇒ exactly the first 2000 followed by "[TRUNCATED]" -/
theorem C13_truncate (m : Str) :
    (m.length ≤ 2000 → truncateMsg m = m) ∧
    (2000 < m.length → truncateMsg m = m.take 2000 ++ "[TRUNCATED]".toList) := by
  unfold truncateMsg
  constructor
  · intro h; rw [if_neg (by omega)]
  · intro h; rw [if_pos h]

end Sfw.Audit
