/-
  C09 / C10 / C19 — model of diff.MatchFunctionsByTopology (pkg/diff/topology_match.go, after the
  fix "diff matches functions in sorted name order"), diff.ShortFuncName, and the bookkeeping of
  cli.ComputeDiff (internal/cli/diff_logic.go).
-/
import SfwModel.Model.Match
namespace Sfw.DiffReport
open Sfw

/-! ### diff.ShortFuncName -/

def isSep (c : Char) : Bool :=
  c = '(' || c = ')' || c = '[' || c = ']' || c = '*' || c = ',' || c = ' ' || c = '{' || c = '}'

def lastIndexOf (c : Char) (s : Str) : Option Nat :=
  let rec go : List Char → Nat → Option Nat → Option Nat
    | [], _, acc => acc
    | x :: xs, i, acc => go xs (i + 1) (if x = c then some i else acc)
  go s 0 none

/-- shortenWord: strip leading "..." / ".", then keep what follows the last '.' of the name part,
    else what follows the last '/' -/
def shortenWord : Nat → Str → Str
  | 0, w => w
  | fuel + 1, w =>
    match w with
    | '.' :: '.' :: '.' :: rest => '.' :: '.' :: '.' :: shortenWord fuel rest
    | '.' :: rest => '.' :: shortenWord fuel rest
    | _ =>
      match lastIndexOf '.' w, lastIndexOf '/' w with
      | some d, some sl => if sl < d then w.drop (d + 1) else w.drop (sl + 1)
      | some d, none => w.drop (d + 1)
      | none, some sl => w.drop (sl + 1)
      | none, none => w

/-- split at separators, shorten every word, keep the separators -/
def shortFuncName (full : Str) : Str :=
  let rec go : List Char → Str → Str → Str
    | [], word, acc => acc ++ (if word.isEmpty then [] else shortenWord (word.length + 1) word.reverse)
    | c :: cs, word, acc =>
      if isSep c then
        go cs [] (acc ++ (if word.isEmpty then [] else shortenWord (word.length + 1) word.reverse) ++ [c])
      else go cs (c :: word) acc
  go full [] []

/-! ### matching -/

structure FnEntry where
  full : Str
  topo : Option Topo
  /-- `FingerprintResult.Fingerprint` -/
  fp   : Str := []
  deriving Repr

def FnEntry.short (e : FnEntry) : Str := shortFuncName e.full

/-- Go map semantics: `m[short] = r` in list order — the LAST entry with a given short name stays -/
def byName (l : List FnEntry) : List (Str × FnEntry) :=
  l.foldl (fun acc e => acc.filter (fun p => p.1 ≠ e.short) ++ [(e.short, e)]) []

def sortedNames (m : List (Str × FnEntry)) : List Str := sortStrs (m.map (·.1))

def lookup (m : List (Str × FnEntry)) (n : Str) : Option FnEntry := (m.find? (fun p => p.1 = n)).map (·.2)

structure Pair where
  old : FnEntry
  new : FnEntry
  sim : Rat
  byName : Bool
  deriving Repr

structure Cand where
  i : Nat
  j : Nat
  sim : Rat
  /-- the two functions have the same fingerprint (an unchanged body) -/
  same : Bool := false
  deriving Repr

def simOf (a b : Option Topo) : Option Rat :=
  match a, b with
  | some x, some y => some (topoSimilarity x y)
  | _, _ => none

/-- candidates: for every unmatched old function (in order) every unmatched new function of the
    same fuzzy bucket (in order) whose similarity reaches the threshold -/
def candidates (uo un : List FnEntry) (thr : Rat) : List Cand :=
  (uo.zipIdx).flatMap (fun (o, i) =>
    match o.topo with
    | none => []
    | some ot =>
      (un.zipIdx).filterMap (fun (n, j) =>
        match n.topo with
        | none => none
        | some nt =>
          if fuzzyHash ot = fuzzyHash nt then
            let s := topoSimilarity ot nt
            if thr ≤ s then some ⟨i, j, s, decide (o.fp = n.fp)⟩ else none
          else none))

/-- the `less` of the candidate sort: higher similarity first; among equally similar candidates an
    unchanged body first (fix "a renamed function is paired with its own body among equally similar
    candidates") -/
def candLt (a b : Cand) : Bool :=
  decide (b.sim < a.sim) || (decide (a.sim = b.sim) && a.same && !b.same)

/-- `sort.SliceStable(less)` as a merge sort: `a` may stay in front of `b` unless `b` is strictly less -/
def candLe (a b : Cand) : Bool := !candLt b a

/-- greedy one-to-one selection over the sorted candidates -/
def greedy : List Cand → List Nat → List Nat → List Cand → List Cand
  | [], _, _, acc => acc.reverse
  | c :: cs, usedOld, usedNew, acc =>
    if usedOld.contains c.i || usedNew.contains c.j then greedy cs usedOld usedNew acc
    else greedy cs (c.i :: usedOld) (c.j :: usedNew) (c :: acc)

structure MatchOut where
  matched : List Pair
  added : List FnEntry
  removed : List FnEntry
  deriving Repr

def matchFunctions (old new : List FnEntry) (thr : Rat) : MatchOut :=
  let om := byName old
  let nm := byName new
  let oNames := sortedNames om
  let nNames := sortedNames nm
  -- phase 1: same short name
  let direct : List Pair := oNames.filterMap (fun n =>
    match lookup om n, lookup nm n with
    | some o, some w => some { old := o, new := w, sim := (simOf o.topo w.topo).getD 1, byName := true }
    | _, _ => none)
  let uo := oNames.filterMap (fun n => if (lookup nm n).isSome then none else lookup om n)
  let un := nNames.filterMap (fun n => if (lookup om n).isSome then none else lookup nm n)
  if uo.isEmpty || un.isEmpty then { matched := direct, added := un, removed := uo }
  else
    let chosen := greedy ((candidates uo un thr).mergeSort candLe) [] [] []
    let fuzzy : List Pair := chosen.filterMap (fun c =>
      match uo[c.i]?, un[c.j]? with
      | some o, some w => some { old := o, new := w, sim := c.sim, byName := false }
      | _, _ => none)
    let usedOld := chosen.map (·.i)
    let usedNew := chosen.map (·.j)
    { matched := direct ++ fuzzy,
      removed := (uo.zipIdx).filterMap (fun (o, i) => if usedOld.contains i then none else some o),
      added := (un.zipIdx).filterMap (fun (w, j) => if usedNew.contains j then none else some w) }

/-! ### ComputeDiff bookkeeping -/

inductive Status where
  | preserved | modified | added | removed | renamed
  deriving Repr, DecidableEq

structure Entry where
  name : Str
  status : Status
  deriving Repr

structure Summary where
  total : Nat
  preserved : Nat
  modified : Nat
  added : Nat
  removed : Nat
  renamed : Nat
  deriving Repr, DecidableEq

structure Report where
  functions : List Entry
  summary : Summary
  deriving Repr

/-- `cmp` is CompareFunctions' verdict for a matched pair (true = preserved) -/
def mkReport (m : MatchOut) (cmp : Pair → Bool) : Report :=
  let matchedEntries : List Entry := m.matched.map (fun p =>
    if !p.byName then { name := p.old.short ++ " → ".toList ++ p.new.short, status := .renamed }
    else { name := p.old.short, status := if cmp p then .preserved else .modified })
  let preserved := (matchedEntries.filter (fun e => e.status = .preserved)).length
  let modified := (matchedEntries.filter (fun e => e.status ≠ .preserved)).length
  { functions := matchedEntries ++ m.added.map (fun e => { name := e.short, status := .added }) ++
                 m.removed.map (fun e => { name := e.short, status := .removed }),
    summary := { total := m.matched.length + m.added.length + m.removed.length,
                 preserved := preserved, modified := modified, added := m.added.length,
                 removed := m.removed.length,
                 renamed := (m.matched.filter (fun p => !p.byName)).length } }

end Sfw.DiffReport
