/-
  Model of pkg/storage/pebbledb/store.go.

  Pebble is modelled as a finite map from byte strings to values, kept as a list sorted by
  the lexicographic order on bytes (Pebble's default comparer).  A batch is a list of
  set / delete / delete-range operations applied left to right and ATOMICALLY (trusted: Pebble).
  Values are a sum type; gob/JSON encoding of the record is the identity here (the round trip
  is covered by the differential: GetSignature must return identical content).
-/
import SfwModel.Model.Match
namespace Sfw.Store
open Sfw

abbrev Key := List Nat

inductive Val where
  | sigRec (s : Sig)
  | packed (id : Str) (score tol : Rat)
  | rawId (id : Str)
  | metaV (s : Str)
  deriving Repr, DecidableEq

abbrev KV := List (Key × Val)

def keyLt (a b : Key) : Bool := decide (a < b)

/-- insert or replace, keeping the list sorted -/
def KV.set : KV → Key → Val → KV
  | [], k, v => [(k, v)]
  | (k', v') :: rest, k, v =>
    if k = k' then (k, v) :: rest
    else if keyLt k k' then (k, v) :: (k', v') :: rest
    else (k', v') :: KV.set rest k v

def KV.del (kv : KV) (k : Key) : KV := kv.filter (fun e => e.1 ≠ k)

/-- delete every key in [lo, hi) -/
def KV.delRange (kv : KV) (lo hi : Key) : KV :=
  kv.filter (fun e => !(decide (lo ≤ e.1) && keyLt e.1 hi))

def KV.get (kv : KV) (k : Key) : Option Val := (kv.find? (fun e => e.1 = k)).map (·.2)

/-- iterator over [lo, hi), in key order -/
def KV.iter (kv : KV) (lo hi : Key) : KV := kv.filter (fun e => decide (lo ≤ e.1) && keyLt e.1 hi)

inductive BOp where
  | set (k : Key) (v : Val)
  | del (k : Key)
  | delRange (lo hi : Key)
  deriving Repr

def applyOp (kv : KV) : BOp → KV
  | .set k v => kv.set k v
  | .del k => kv.del k
  | .delRange lo hi => kv.delRange lo hi

def applyBatch (kv : KV) (b : List BOp) : KV := b.foldl applyOp kv

/-! ### keys -/

/-- UTF-8 encoding of one code point (Go strings are byte strings; Pebble orders keys by bytes) -/
def utf8Char (c : Char) : List Nat :=
  let n := c.toNat
  if n < 0x80 then [n]
  else if n < 0x800 then [0xC0 + n / 64, 0x80 + n % 64]
  else if n < 0x10000 then [0xE0 + n / 4096, 0x80 + (n / 64) % 64, 0x80 + n % 64]
  else [0xF0 + n / 262144, 0x80 + (n / 4096) % 64, 0x80 + (n / 64) % 64, 0x80 + n % 64]

def bytes (s : Str) : Key := s.flatMap utf8Char

def pSig : Key := bytes "sig:".toList
def pTopo : Key := bytes "topo:".toList
def pFuzzy : Key := bytes "fuzzy:".toList
def pEntr : Key := bytes "entr:".toList
def pMeta : Key := bytes "meta:".toList
def colon : Nat := 58

def sigKey (id : Str) : Key := pSig ++ bytes id
def topoKey (h id : Str) : Key := pTopo ++ bytes h ++ [colon] ++ bytes id
def fuzzyKey (h id : Str) : Key := pFuzzy ++ bytes h ++ [colon] ++ bytes id

/-- incrementLastByte: smallest key greater than every key with this prefix (none if all 0xff) -/
def incLastRev : List Nat → Option (List Nat)
  | [] => none
  | b :: rest => if b < 255 then some ((b + 1) :: rest) else (incLastRev rest).map (0 :: ·)

def incLast (p : Key) : Option Key := (incLastRev p.reverse).map List.reverse

/-- round-half-even of a non-negative rational to an integer -/
def roundHalfEven (q : Rat) : Int :=
  let f := q.floor
  let r := q - f
  if r < 1/2 then f else if 1/2 < r then f + 1 else (if f % 2 = 0 then f else f + 1)

def digitChar (d : Nat) : Char := Char.ofNat (48 + d % 10)

/-- `fmt.Sprintf("%08.4f", e)` for 0 ≤ e < 1000, as bytes: three integer digits, '.', four
    decimals, rounded half-to-even on the exact value (what Go's correctly rounded %f does for
    exactly representable inputs).  Fixed width 8 by construction. -/
def fmtE (e : Rat) : Str :=
  let n := (roundHalfEven (e * 10000)).toNat
  [digitChar (n / 1000000), digitChar (n / 100000), digitChar (n / 10000), '.',
   digitChar (n / 1000), digitChar (n / 100), digitChar (n / 10), digitChar n]

def entrKey (e : Rat) (id : Str) : Key := pEntr ++ bytes (fmtE e) ++ [colon] ++ bytes id
def metaKey (k : Str) : Key := pMeta ++ bytes k

def packedOf (s : Sig) : Val := .packed s.id s.entropy s.tol

/-! ### mutations (each returns the batches it commits, in order) -/

/-- the three guarded deletes of AddSignature(s) -/
def cleanup (old new : Sig) : List BOp :=
  (if bytes old.topoHash ≠ bytes new.topoHash then [.del (topoKey old.topoHash old.id)] else []) ++
  (if bytes old.fuzzyHash ≠ bytes new.fuzzyHash ∧ old.fuzzyHash ≠ [] then [.del (fuzzyKey old.fuzzyHash old.id)] else []) ++
  (if old.entropy ≠ new.entropy then [.del (entrKey old.entropy old.id)] else [])

def indexSets (s : Sig) : List BOp :=
  [.set (topoKey s.topoHash s.id) (packedOf s)] ++
  (if s.fuzzyHash ≠ [] then [.set (fuzzyKey s.fuzzyHash s.id) (packedOf s)] else []) ++
  [.set (entrKey s.entropy s.id) (.rawId s.id)]

/-- batch body for one signature, cleanup computed against the committed state `kv` -/
def addOps (kv : KV) (s : Sig) : List BOp :=
  (match kv.get (sigKey s.id) with
   | some (.sigRec old) => cleanup old s
   | _ => []) ++ [.set (sigKey s.id) (.sigRec s)] ++ indexSets s

inductive Outcome where
  | ok
  | err (kind : String)
  deriving Repr, DecidableEq

/-- AddSignature (IDs are assigned by the caller in the model; empty TopologyHash is rejected) -/
def addBatches (kv : KV) (s : Sig) : Outcome × List (List BOp) :=
  if s.topoHash = [] then (.err "missing-topology-hash", []) else (.ok, [addOps kv s])

/-- index of the last occurrence of each ID wins -/
def lastWins : List Sig → List Sig
  | [] => []
  | s :: rest => if rest.any (fun r => bytes r.id = bytes s.id) then lastWins rest else s :: lastWins rest

/-- AddSignatures: one batch; only the last entry per ID is written -/
def addManyBatches (kv : KV) (l : List Sig) : Outcome × List (List BOp) :=
  if l.any (fun s => s.topoHash = []) then (.err "missing-topology-hash", [])
  else (.ok, [(lastWins l).flatMap (addOps kv)])

def deleteBatches (kv : KV) (id : Str) : Outcome × List (List BOp) :=
  match kv.get (sigKey id) with
  | some (.sigRec s) =>
    (.ok, [[.del (topoKey s.topoHash s.id)] ++
           (if s.fuzzyHash ≠ [] then [.del (fuzzyKey s.fuzzyHash s.id)] else []) ++
           [.del (entrKey s.entropy s.id), .del (sigKey id)]])
  | _ => (.err "not-found", [])

/-- MarkFalsePositive: `note` is the complete "FP:<time>:<notes>" string -/
def markFPBatches (kv : KV) (id note : Str) : Outcome × List (List BOp) :=
  match kv.get (sigKey id) with
  | some (.sigRec s) => (.ok, [[.set (sigKey id) (.sigRec { s with refs := s.refs ++ [note] })]])
  | _ => (.err "not-found", [])

def sigRecords (kv : KV) : List Sig :=
  kv.filterMap (fun e => match e.2 with
    | .sigRec s => if pSig.isPrefixOf e.1 then some s else none
    | _ => none)

/-- split into pieces of length `n` (fuel = length keeps the recursion structural) -/
def chunksAux (n : Nat) : Nat → List α → List (List α)
  | 0, _ => []
  | fuel + 1, l => if l.isEmpty then [] else l.take n :: chunksAux n fuel (l.drop n)

def chunks (n : Nat) (l : List α) : List (List α) :=
  if n = 0 then (if l.isEmpty then [] else [l]) else chunksAux n l.length l

/-- RebuildIndexes: one delete-range batch, then the re-index in chunks of 1000 records
    (the last chunk is committed even when empty) -/
def rebuildBatches (kv : KV) : List (List BOp) :=
  let clear : List BOp :=
    [pTopo, pFuzzy, pEntr].filterMap (fun p => (incLast p).map (fun hi => BOp.delRange p hi))
  let recs := sigRecords kv
  let full := chunks 1000 recs
  -- Go commits after every 1000th record and once more at the end
  let body := full.map (fun c => c.flatMap indexSets)
  let body := if recs.length % 1000 = 0 then body ++ [[]] else body
  clear :: body

/-- schema-version write of NewPebbleScanner on a read-write open -/
def openBatches (kv : KV) : List (List BOp) :=
  match kv.get (metaKey "schema_version".toList) with
  | some (.metaV v) => if v = [] then [[.set (metaKey "schema_version".toList) (.metaV "3".toList)]] else []
  | _ => [[.set (metaKey "schema_version".toList) (.metaV "3".toList)]]

inductive Op where
  | add (s : Sig)
  | addMany (l : List Sig)
  | delete (id : Str)
  | markFP (id note : Str)
  | rebuild
  | reopen
  deriving Repr

def batchesOf (kv : KV) : Op → Outcome × List (List BOp)
  | .add s => addBatches kv s
  | .addMany l => addManyBatches kv l
  | .delete id => deleteBatches kv id
  | .markFP id note => markFPBatches kv id note
  | .rebuild => (.ok, rebuildBatches kv)
  | .reopen => (.ok, openBatches kv)

def step (kv : KV) (op : Op) : KV × Outcome :=
  let (out, bs) := batchesOf kv op
  (bs.foldl applyBatch kv, out)

def init : KV := (step [] .reopen).1

/-! ### lookups, written the way store.go writes them -/

def prefixIter (kv : KV) (p : Key) : KV :=
  match incLast p with
  | some hi => (kv.iter p hi).takeWhile (fun e => p.isPrefixOf e.1)
  | none => []

def getSig (kv : KV) (id : Str) : Option Sig :=
  match kv.get (sigKey id) with
  | some (.sigRec s) => some s
  | _ => none

def topoPrefix (h : Str) : Key := pTopo ++ bytes h ++ [colon]
def fuzzyPrefix (h : Str) : Key := pFuzzy ++ bytes h ++ [colon]

def idOfIndexVal : Val → Option (Str × Option (Rat × Rat))
  | .packed id sc tol => some (id, some (sc, tol))
  | .rawId id => some (id, none)
  | _ => none

def byTopology (kv : KV) (h : Str) : Option Sig :=
  match prefixIter kv (topoPrefix h) with
  | e :: _ => (idOfIndexVal e.2).bind (fun p => getSig kv p.1)
  | [] => none

def countSigs (kv : KV) : Nat := (prefixIter kv pSig).length

def listIDs (kv : KV) : List Key :=
  (prefixIter kv pSig).filterMap (fun e => if pSig.length < e.1.length then some (e.1.drop pSig.length) else none)

def exportSigs (kv : KV) : List Sig :=
  (prefixIter kv pSig).filterMap (fun e => match e.2 with | .sigRec s => some s | _ => none)

def stats (kv : KV) : Nat × Nat × Nat × Nat :=
  ((prefixIter kv pSig).length, (prefixIter kv pTopo).length, (prefixIter kv pFuzzy).length, (prefixIter kv pEntr).length)

def entropyPrefilter (t : Topo) (defTol : Rat) (p : Option (Rat × Rat)) : Bool :=
  match p with
  | some (sc, tol) =>
    let eff := if tol = 0 then defTol else tol
    !(decide (eff < ratAbs (sc - t.entropy)))
  | none => true

/-- the shared hit loop of ScanCandidates / ScanTopologyWithSnapshot: `seen` is only marked for
    entries that pass the packed entropy pre-filter -/
def processHits (kv : KV) (t : Topo) (defTol : Rat) (hits : List Val) : List Sig :=
  let rec go : List Val → List Key → List Sig → List Sig
    | [], _, acc => acc.reverse
    | v :: rest, seen, acc =>
      match idOfIndexVal v with
      | none => go rest seen acc
      | some (id, pk) =>
        if seen.contains (bytes id) then go rest seen acc
        else if !entropyPrefilter t defTol pk then go rest seen acc
        else match getSig kv id with
          | some s => go rest (bytes id :: seen) (s :: acc)
          | none => go rest (bytes id :: seen) acc
  go hits [] []

def candidates (kv : KV) (H : Str) (t : Topo) (defTol : Rat) : List Sig :=
  processHits kv t defTol
    (((prefixIter kv (topoPrefix H)) ++ (prefixIter kv (fuzzyPrefix (fuzzyHash t)))).map (·.2))

def scanFull (kv : KV) (H : Str) (t : Topo) (thr defTol : Rat) : List MatchResult :=
  alertsOf H t (candidates kv H t defTol) thr defTol

/-- ScanTopologyExact: topo index only, no `seen` set, best result with a strict `>` update -/
def scanExact (kv : KV) (H : Str) (t : Topo) (thr defTol : Rat) : Option MatchResult :=
  let hits := (prefixIter kv (topoPrefix H)).filterMap (fun e => idOfIndexVal e.2)
  let sigs := hits.filterMap (fun p => if entropyPrefilter t defTol p.2 then getSig kv p.1 else none)
  let rs := (sigs.map (fun s => matchSignature H t s defTol)).filter (fun r => r.conf.ge thr)
  rs.foldl (fun best r => match best with
    | none => some r
    | some b => if Conf.gt r.conf b.conf then some r else some b) none

/-- ScanByEntropyRange -/
def entropyRange (kv : KV) (lo hi : Rat) : List Sig :=
  match incLast (pEntr ++ bytes (fmtE hi)) with
  | none => []
  | some hiK =>
    let hits := (kv.iter (pEntr ++ bytes (fmtE lo)) hiK).filterMap (fun e => idOfIndexVal e.2)
    let rec go : List (Str × Option (Rat × Rat)) → List Key → List Sig → List Sig
      | [], _, acc => acc.reverse
      | (id, _) :: rest, seen, acc =>
        if seen.contains (bytes id) then go rest seen acc
        else match getSig kv id with
          | some s => if s.entropy < lo ∨ hi < s.entropy then go rest (bytes id :: seen) acc
                      else go rest (bytes id :: seen) (s :: acc)
          | none => go rest (bytes id :: seen) acc
    go hits [] []

/-! ### the specification: brute force over the surviving signatures -/

/-- abstraction: the signature records, in key order -/
def abs (kv : KV) : List Sig := sigRecords kv

/-- identity of a signature = the bytes of its ID (Go strings are byte strings) -/
def Spec.upsert (sp : List Sig) (s : Sig) : List Sig := sp.filter (fun x => bytes x.id ≠ bytes s.id) ++ [s]

def specStep (sp : List Sig) : Op → List Sig
  | .add s => if s.topoHash = [] then sp else Spec.upsert sp s
  | .addMany l => if l.any (fun s => s.topoHash = []) then sp else (lastWins l).foldl Spec.upsert sp
  | .delete id => sp.filter (fun x => bytes x.id ≠ bytes id)
  | .markFP id note => sp.map (fun x => if bytes x.id = bytes id then { x with refs := x.refs ++ [note] } else x)
  | .rebuild => sp
  | .reopen => sp

def idLe (a b : Sig) : Bool := decide (bytes a.id ≤ bytes b.id)

def sortById (l : List Sig) : List Sig := l.mergeSort idLe

def bruteGet (sp : List Sig) (id : Str) : Option Sig := sp.find? (fun s => bytes s.id = bytes id)

def bruteByTopology (sp : List Sig) (h : Str) : Option Sig :=
  (sortById (sp.filter (fun s => bytes s.topoHash = bytes h))).head?

def effTol (s : Sig) (defTol : Rat) : Rat := if s.tol = 0 then defTol else s.tol

def bruteCandidates (sp : List Sig) (H : Str) (t : Topo) (defTol : Rat) : List Sig :=
  let pass := fun (s : Sig) => !(decide (effTol s defTol < ratAbs (s.entropy - t.entropy)))
  let a := sortById (sp.filter (fun s => bytes s.topoHash = bytes H ∧ pass s))
  let b := sortById (sp.filter (fun s => bytes s.topoHash ≠ bytes H ∧ s.fuzzyHash ≠ [] ∧
                                          bytes s.fuzzyHash = bytes (fuzzyHash t) ∧ pass s))
  a ++ b

def bruteScanFull (sp : List Sig) (H : Str) (t : Topo) (thr defTol : Rat) : List MatchResult :=
  alertsOf H t (bruteCandidates sp H t defTol) thr defTol

def entrLe (a b : Sig) : Bool := decide (bytes (fmtE a.entropy) ++ [colon] ++ bytes a.id ≤ bytes (fmtE b.entropy) ++ [colon] ++ bytes b.id)

def bruteEntropyRange (sp : List Sig) (lo hi : Rat) : List Sig :=
  (sp.filter (fun s => lo ≤ s.entropy ∧ s.entropy ≤ hi)).mergeSort entrLe

def bruteStats (sp : List Sig) : Nat × Nat × Nat × Nat :=
  (sp.length, sp.length, (sp.filter (fun s => s.fuzzyHash ≠ [])).length, sp.length)

end Sfw.Store
