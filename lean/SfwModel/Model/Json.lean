/-
  A small JSON layer: the value type, a validating parser equivalent to Go's encoding/json
  syntax check (`json.Valid`) plus string un-quoting, and Go's string ENCODER (`jsonEscape`,
  HTML-escaping on, as json.Marshal does by default).
-/
import SfwModel.Model.Util
namespace Sfw.Json

inductive JVal where
  | null
  | bool (b : Bool)
  | num (raw : Str)
  | str (s : Str)
  | arr (items : List JVal)
  | obj (fields : List (Str × JVal))
  deriving Repr, Inhabited

def isWs (c : Char) : Bool := c = ' ' || c = '\t' || c = '\n' || c = '\r'

def skipWs : Str → Str
  | c :: cs => if isWs c then skipWs cs else c :: cs
  | [] => []

def hexDigitVal (c : Char) : Option Nat :=
  if '0' ≤ c ∧ c ≤ '9' then some (c.toNat - 48)
  else if 'a' ≤ c ∧ c ≤ 'f' then some (c.toNat - 87)
  else if 'A' ≤ c ∧ c ≤ 'F' then some (c.toNat - 55)
  else none

def hex4 : Str → Option (Nat × Str)
  | a :: b :: c :: d :: rest =>
    match hexDigitVal a, hexDigitVal b, hexDigitVal c, hexDigitVal d with
    | some w, some x, some y, some z => some (((w * 16 + x) * 16 + y) * 16 + z, rest)
    | _, _, _, _ => none
  | _ => none

def replacement : Char := Char.ofNat 0xFFFD

/-- lex the inside of a JSON string literal (after the opening quote): returns the decoded
    string and the rest after the closing quote; `none` on a raw control character, a bad escape or
    an unterminated literal.  Lone surrogates decode to U+FFFD as in Go. -/
def lexStringBody : Nat → Str → Str → Option (Str × Str)
  | 0, _, _ => none
  | _ + 1, [], _ => none
  | fuel + 1, c :: cs, acc =>
    if c = '"' then some (acc.reverse, cs)
    else if c.toNat < 0x20 then none
    else if c = '\\' then
      match cs with
      | 'u' :: rest =>
        match hex4 rest with
        | none => none
        | some (v, rest') =>
          if 0xD800 ≤ v ∧ v < 0xDC00 then
            -- high surrogate: needs a following \uDC00..DFFF
            match rest' with
            | '\\' :: 'u' :: r2 =>
              match hex4 r2 with
              | some (w, r3) =>
                if 0xDC00 ≤ w ∧ w < 0xE000 then
                  lexStringBody fuel r3 (Char.ofNat (0x10000 + (v - 0xD800) * 1024 + (w - 0xDC00)) :: acc)
                else lexStringBody fuel rest' (replacement :: acc)
              | none => none
            | _ => lexStringBody fuel rest' (replacement :: acc)
          else if 0xDC00 ≤ v ∧ v < 0xE000 then lexStringBody fuel rest' (replacement :: acc)
          else lexStringBody fuel rest' (Char.ofNat v :: acc)
      | '"' :: rest => lexStringBody fuel rest ('"' :: acc)
      | '\\' :: rest => lexStringBody fuel rest ('\\' :: acc)
      | '/' :: rest => lexStringBody fuel rest ('/' :: acc)
      | 'b' :: rest => lexStringBody fuel rest (Char.ofNat 8 :: acc)
      | 'f' :: rest => lexStringBody fuel rest (Char.ofNat 12 :: acc)
      | 'n' :: rest => lexStringBody fuel rest ('\n' :: acc)
      | 'r' :: rest => lexStringBody fuel rest ('\r' :: acc)
      | 't' :: rest => lexStringBody fuel rest ('\t' :: acc)
      | _ => none
    else lexStringBody fuel cs (c :: acc)

/-- lex a complete string literal starting at the opening quote -/
def lexString (s : Str) : Option (Str × Str) :=
  match s with
  | '"' :: rest => lexStringBody (rest.length + 1) rest []
  | _ => none

def takeDigits : Str → Str × Str
  | c :: cs => if c.isDigit then let (d, r) := takeDigits cs; (c :: d, r) else ([], c :: cs)
  | [] => ([], [])

/-- JSON number grammar: -? (0 | [1-9][0-9]*) (\.[0-9]+)? ([eE][+-]?[0-9]+)? -/
def lexNumber (s : Str) : Option (Str × Str) :=
  let (sign, s1) := match s with | '-' :: r => (['-'], r) | _ => ([], s)
  let (ip, s2) := takeDigits s1
  if ip.isEmpty then none
  else if ip.length > 1 ∧ ip.head? = some '0' then none
  else
    let fracRes : Option (Str × Str) := match s2 with
      | '.' :: r => let (fd, r') := takeDigits r; if fd.isEmpty then none else some ('.' :: fd, r')
      | _ => some ([], s2)
    match fracRes with
    | none => none
    | some (frac, s3) =>
      let expRes : Option (Str × Str) := match s3 with
        | e :: r =>
          if e = 'e' ∨ e = 'E' then
            let (sg, r1) := match r with
              | '+' :: r' => (['+'], r')
              | '-' :: r' => (['-'], r')
              | _ => ([], r)
            let (ed, r2) := takeDigits r1
            if ed.isEmpty then none else some (e :: sg ++ ed, r2)
          else some ([], s3)
        | [] => some ([], s3)
      match expRes with
      | none => none
      | some (ex, s4) => some (sign ++ ip ++ frac ++ ex, s4)

mutual
  /-- parse one value (leading whitespace allowed); fuel bounds the nesting/steps -/
  def parseValue : Nat → Str → Option (JVal × Str)
    | 0, _ => none
    | fuel + 1, s =>
      match skipWs s with
      | 'n' :: 'u' :: 'l' :: 'l' :: r => some (.null, r)
      | 't' :: 'r' :: 'u' :: 'e' :: r => some (.bool true, r)
      | 'f' :: 'a' :: 'l' :: 's' :: 'e' :: r => some (.bool false, r)
      | '"' :: r =>
        match lexString ('"' :: r) with
        | some (v, rest) => some (.str v, rest)
        | none => none
      | '[' :: r =>
        match skipWs r with
        | ']' :: r' => some (.arr [], r')
        | _ => parseElems fuel r []
      | '{' :: r =>
        match skipWs r with
        | '}' :: r' => some (.obj [], r')
        | _ => parseMembers fuel r []
      | c :: r =>
        if c = '-' ∨ c.isDigit then
          match lexNumber (c :: r) with
          | some (n, rest) => some (.num n, rest)
          | none => none
        else none
      | [] => none
  def parseElems : Nat → Str → List JVal → Option (JVal × Str)
    | 0, _, _ => none
    | fuel + 1, s, acc =>
      match parseValue fuel s with
      | none => none
      | some (v, rest) =>
        match skipWs rest with
        | ',' :: r => parseElems fuel r (v :: acc)
        | ']' :: r => some (.arr (v :: acc).reverse, r)
        | _ => none
  def parseMembers : Nat → Str → List (Str × JVal) → Option (JVal × Str)
    | 0, _, _ => none
    | fuel + 1, s, acc =>
      match skipWs s with
      | '"' :: r =>
        match lexString ('"' :: r) with
        | none => none
        | some (k, rest) =>
          match skipWs rest with
          | ':' :: r2 =>
            match parseValue fuel r2 with
            | none => none
            | some (v, rest2) =>
              match skipWs rest2 with
              | ',' :: r3 => parseMembers fuel r3 ((k, v) :: acc)
              | '}' :: r3 => some (.obj ((k, v) :: acc).reverse, r3)
              | _ => none
          | _ => none
      | _ => none
end

/-- parse a complete document: one value, then only whitespace (json.Valid / Unmarshal's syntax check) -/
def parse (s : Str) : Option JVal :=
  match parseValue (2 * s.length + 2) s with
  | some (v, rest) => if (skipWs rest).isEmpty then some v else none
  | none => none

def valid (s : Str) : Bool := (parse s).isSome

/-! ### Go's string encoder -/

def hexLower (n : Nat) : Char := if n < 10 then Char.ofNat (48 + n) else Char.ofNat (87 + n)

def u00 (n : Nat) : Str := ['\\', 'u', '0', '0', hexLower (n / 16), hexLower (n % 16)]

/-- one character of json.Marshal's string encoding (HTML escaping on) -/
def escapeChar (c : Char) : Str :=
  if c = '"' then ['\\', '"']
  else if c = '\\' then ['\\', '\\']
  else if c = '\n' then ['\\', 'n']
  else if c = '\r' then ['\\', 'r']
  else if c = '\t' then ['\\', 't']
  else if c = Char.ofNat 8 then ['\\', 'b']
  else if c = Char.ofNat 12 then ['\\', 'f']
  else if c.toNat < 0x20 then u00 c.toNat
  else if c = '<' ∨ c = '>' ∨ c = '&' then u00 c.toNat
  else if c = Char.ofNat 0x2028 then "\\u2028".toList
  else if c = Char.ofNat 0x2029 then "\\u2029".toList
  else [c]

def jsonEscape (s : Str) : Str := s.flatMap escapeChar

def quote (s : Str) : Str := '"' :: jsonEscape s ++ ['"']

end Sfw.Json
