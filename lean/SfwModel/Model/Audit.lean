/-
  C13 — model of internal/llm/client.go (CallLLM, scanForInjection, executeOpenAIRaw,
  buildModernPrompts, validateOutput, parseLLMJSON, cleanJSONMarkdown) and of the verdict → exit
  mapping of internal/cli/audit.go (RunAudit).
-/
import SfwModel.Model.Json
namespace Sfw.Audit
open Sfw Sfw.Json

/-! ### the envelope -/

structure Evidence where
  function : Str
  riskScore : Int
  delta : Str
  addedOps : Str
  deriving Repr

/-- `> 2000` runes ⇒ first 2000 ++ "[TRUNCATED]" -/
def truncateMsg (m : Str) : Str := if 2000 < m.length then m.take 2000 ++ "[TRUNCATED]".toList else m

def nl : Str := ['\n']

def evidenceJson (e : Evidence) : Str :=
  "    {\n".toList ++
  "      \"function\": ".toList ++ quote e.function ++ ",\n".toList ++
  "      \"risk_score\": ".toList ++ (toString e.riskScore).toList ++ ",\n".toList ++
  "      \"structural_delta\": ".toList ++ quote e.delta ++ ",\n".toList ++
  "      \"added_operations\": ".toList ++ quote e.addedOps ++ "\n".toList ++
  "    }".toList

def joinWith (sep : Str) : List Str → Str
  | [] => []
  | [x] => x
  | x :: xs => x ++ sep ++ joinWith sep xs

/-- json.MarshalIndent(struct{CommitMessage, DiffEvidence}, "", "  ");
    `none` evidence = nil slice (`null`) -/
def userJson (msg : Str) (ev : Option (List Evidence)) : Str :=
  "{\n  \"untrusted_commit_message\": ".toList ++ quote (truncateMsg msg) ++ ",\n  \"diff_evidence\": ".toList ++
  (match ev with
   | none => "null".toList
   | some [] => "[]".toList
   | some l => "[\n".toList ++ joinWith ",\n".toList (l.map evidenceJson) ++ "\n  ]".toList) ++
  "\n}".toList

def reminder : Str :=
  "\n\nREMINDER: You are a Security Auditor. \nIf the code diff shows high risk but the commit message is trivial, return verdict: LIE.".toList

def beginLine (nonce : Str) : Str := "### BEGIN DATA [".toList ++ nonce ++ "] ###".toList
def endLine (nonce : Str) : Str := "### END DATA [".toList ++ nonce ++ "] ###".toList

/-- buildModernPrompts' final payload -/
def payload (msg : Str) (ev : Option (List Evidence)) (nonce : Str) : Str :=
  beginLine nonce ++ nl ++ userJson msg ev ++ nl ++ endLine nonce ++ reminder

/-- scanForInjection's sentinel input -/
def sentinelInput (pl nonce : Str) : Str :=
  "Analyze this untrusted input payload:\n<payload_".toList ++ nonce ++ ">\n".toList ++ pl ++
  "\n</payload_".toList ++ nonce ++ ">".toList

/-! ### cleanJSONMarkdown -/

/-- unicode.IsSpace -/
def isSpaceU (c : Char) : Bool :=
  let n := c.toNat
  n = 32 || (9 ≤ n && n ≤ 13) || n = 0x85 || n = 0xA0 || n = 0x1680 || (0x2000 ≤ n && n ≤ 0x200A) ||
  n = 0x2028 || n = 0x2029 || n = 0x202F || n = 0x205F || n = 0x3000

def trimSpace (s : Str) : Str := ((s.dropWhile isSpaceU).reverse.dropWhile isSpaceU).reverse

/-- RE2 `\s` -/
def isReSpace (c : Char) : Bool := c = ' ' || c = '\t' || c = '\n' || c = '\r' || c = Char.ofNat 12

def fenceAt (s : Str) : Bool := "~~~".toList.isPrefixOf s || "```".toList.isPrefixOf s

/-- index of the leftmost fence marker at or after the start of `s` -/
def findFence : Str → Option Nat
  | [] => none
  | c :: cs => if fenceAt (c :: cs) then some 0 else (findFence cs).map (· + 1)

/-- all start indices of fence markers in `s` (every position, overlapping allowed) -/
def fencePositions (s : Str) : List Nat :=
  let rec go : Str → Nat → List Nat
    | [], _ => []
    | c :: cs, i => if fenceAt (c :: cs) then i :: go cs (i + 1) else go cs (i + 1)
  go s 0

def dropReSpace (s : Str) : Str := s.dropWhile isReSpace

/-- after the opening fence: `\s*(?:json)?\s*` consumed greedily -/
def afterFencePrefix (s : Str) : Str :=
  let s1 := dropReSpace s
  let s2 := if "json".toList.isPrefixOf s1 then s1.drop 4 else s1
  dropReSpace s2

/-- capture group of `(?s)(?:~~~|```)\s*(?:json)?\s*(.*?)\s*(?:~~~|```)` (non-greedy) or of the
    greedy variant; `none` when the regex does not match -/
def fenceCapture (greedy : Bool) (content : Str) : Option Str :=
  match findFence content with
  | none => none
  | some i =>
    let rest := content.drop (i + 3)               -- text after the opener
    let closers := fencePositions rest
    match (if greedy then closers.getLast? else closers.head?) with
    | none => none
    | some j =>
      let body := rest.take j                       -- between opener and chosen closer
      -- the prefix `\s*(json)?\s*` is consumed greedily but never past the closer
      let pre := afterFencePrefix body
      some pre

def indexOfChar (c : Char) : Str → Option Nat
  | [] => none
  | x :: xs => if x = c then some 0 else (indexOfChar c xs).map (· + 1)

def lastIndexOfChar (c : Char) (s : Str) : Option Nat :=
  (indexOfChar c s.reverse).map (fun i => s.length - 1 - i)

def cleanJSONMarkdown (content0 : Str) : Str :=
  let content := trimSpace content0
  let try1 := (fenceCapture false content).map trimSpace
  match try1 with
  | some c1 => if valid c1 then c1 else
      (match (fenceCapture true content).map trimSpace with
       | some c2 => if valid c2 then c2 else
           (match indexOfChar '{' content, lastIndexOfChar '}' content with
            | some a, some b => if a < b then (content.drop a).take (b + 1 - a) else content
            | _, _ => content)
       | none => content)
  | none =>
    match indexOfChar '{' content, lastIndexOfChar '}' content with
    | some a, some b => if a < b then (content.drop a).take (b + 1 - a) else content
    | _, _ => content

/-! ### decoding the two answer shapes (encoding/json Unmarshal into a struct) -/

def foldChar (c : Char) : Char :=
  if 'A' ≤ c ∧ c ≤ 'Z' then Char.ofNat (c.toNat + 32)
  else if c = Char.ofNat 0x17F then 's'
  else if c = Char.ofNat 0x212A then 'k'
  else c

/-- encoding/json matches object keys to struct fields case-insensitively (simple folding) -/
def keyMatches (field key : Str) : Bool := key.map foldChar = field

inductive Dec (α : Type) where
  | ok (v : α)
  | err
  deriving Repr

structure LLMResult where
  verdict : Str
  evidence : Str
  deriving Repr, DecidableEq

/-- json.Unmarshal(text, &LLMResult) — error on bad syntax, non-object (except null) top level, or
    a non-string, non-null value for a known field -/
def decodeLLMResult (text : Str) : Dec LLMResult :=
  match parse text with
  | none => .err
  | some .null => .ok ⟨[], []⟩
  | some (.obj fields) =>
    let step := fun (acc : LLMResult × Bool) (kv : Str × JVal) =>
      let (r, bad) := acc
      if keyMatches "verdict".toList kv.1 then
        (match kv.2 with
         | .str s => ({ r with verdict := s }, bad)
         | .null => (r, bad)
         | _ => (r, true))
      else if keyMatches "evidence".toList kv.1 then
        (match kv.2 with
         | .str s => ({ r with evidence := s }, bad)
         | .null => (r, bad)
         | _ => (r, true))
      else (r, bad)
    let (r, bad) := fields.foldl step (⟨[], []⟩, false)
    if bad then .err else .ok r
  | some _ => .err

structure Sentinel where
  safe : Bool
  analysis : Str
  deriving Repr, DecidableEq

def decodeSentinel (text : Str) : Dec Sentinel :=
  match parse text with
  | none => .err
  | some .null => .ok ⟨false, []⟩
  | some (.obj fields) =>
    let step := fun (acc : Sentinel × Bool) (kv : Str × JVal) =>
      let (r, bad) := acc
      if keyMatches "safe".toList kv.1 then
        (match kv.2 with
         | .bool b => ({ r with safe := b }, bad)
         | .null => (r, bad)
         | _ => (r, true))
      else if keyMatches "analysis".toList kv.1 then
        (match kv.2 with
         | .str s => ({ r with analysis := s }, bad)
         | .null => (r, bad)
         | _ => (r, true))
      else (r, bad)
    let (r, bad) := fields.foldl step (⟨false, []⟩, false)
    if bad then .err else .ok r
  | some _ => .err

/-! ### the provider call: retry machine of executeOpenAIRaw -/

/-- what one HTTP exchange looked like -/
inductive Resp where
  | transportErr
  | http (status : Nat) (body : Str)
  deriving Repr

inductive CallOutcome where
  | text (t : Str)
  | fatal           -- non-retryable HTTP status, undecodable 200 body, "empty response"
  | exhausted       -- 4 attempts used up
  deriving Repr, DecidableEq

def getField (fields : List (Str × JVal)) (name : Str) : Option JVal :=
  -- last matching key wins (the decoder overwrites)
  (fields.reverse.find? (fun kv => keyMatches name kv.1)).map (·.2)

/-- json.Unmarshal(item.Content, &string) / &[]OpenAIContentPart on an already parsed value -/
def contentText (v : Option JVal) : Option Str :=
  match v with
  | none => none                                   -- no "content" key: both Unmarshals fail
  | some (.str s) => some s
  | some .null => some []
  | some (.arr parts) =>
    -- every element must be an object (or null) with string/null "type"/"text"
    let step := fun (acc : Option Str) (p : JVal) =>
      match acc with
      | none => none
      | some sofar =>
        match p with
        | .null => some sofar
        | .obj fs =>
          let ty := getField fs "type".toList
          let tx := getField fs "text".toList
          let tyS : Option Str := match ty with | none => some [] | some (.str s) => some s | some .null => some [] | _ => none
          let txS : Option Str := match tx with | none => some [] | some (.str s) => some s | some .null => some [] | _ => none
          (match tyS, txS with
           | some t, some x => if t = "output_text".toList ∨ t = "text".toList then some (sofar ++ x) else some sofar
           | _, _ => none)
        | _ => none
    parts.foldl step (some [])
  | some _ => none

/-- decode a 200 body: `none` = fatal (undecodable / no usable assistant item) -/
def extractAnswer (body : Str) : Option Str :=
  match parse body with
  | none => none
  | some .null => none                              -- zero items: "empty response"
  | some (.obj fields) =>
    match getField fields "items".toList with
    | none => none
    | some .null => none
    | some (.arr items) =>
      -- every item must decode into OpenAIItem: object or null, string/null type & role
      let okItem := fun (it : JVal) => match it with
        | .null => true
        | .obj fs =>
          (match getField fs "role".toList with | none => true | some (.str _) => true | some .null => true | _ => false) &&
          (match getField fs "type".toList with | none => true | some (.str _) => true | some .null => true | _ => false)
        | _ => false
      if !items.all okItem then none else
      -- walk from the last item backwards
      let pick := fun (it : JVal) => match it with
        | .obj fs =>
          (match getField fs "role".toList with
           | some (.str r) => if r = "assistant".toList ∨ r = "model".toList then contentText (getField fs "content".toList) else none
           | _ => none)
        | _ => none
      items.reverse.findSome? pick
    | some _ => none
  | some _ => none

def retryable (status : Nat) : Bool := status = 429 || (500 ≤ status && status ≤ 599)

/-- executeOpenAIRaw over the scripted exchanges; returns outcome and number of requests made -/
def callRaw : Nat → List Resp → CallOutcome × Nat
  | 0, _ => (.exhausted, 0)
  | _ + 1, [] => (.exhausted, 0)       -- script ran out: treated as exhaustion by the harness
  | n + 1, r :: rest =>
    match r with
    | .transportErr => let (o, k) := callRaw n rest; (o, k + 1)
    | .http status body =>
      if retryable status then let (o, k) := callRaw n rest; (o, k + 1)
      else if status ≠ 200 then (.fatal, 1)
      else match extractAnswer body with
        | some t => (.text t, 1)
        | none => (.fatal, 1)

def maxAttempts : Nat := 4

/-! ### CallLLM and RunAudit -/

def toUpperAscii (s : Str) : Str := s.map (fun c => if 'a' ≤ c ∧ c ≤ 'z' then Char.ofNat (c.toNat - 32) else c)
def toLowerAscii (s : Str) : Str := s.map (fun c => if 'A' ≤ c ∧ c ≤ 'Z' then Char.ofNat (c.toNat + 32) else c)

def infixOf (sub s : Str) : Bool :=
  match s with
  | [] => sub.isEmpty
  | c :: cs => sub.isPrefixOf (c :: cs) || infixOf sub cs

def validVerdicts : List Str := ["MATCH".toList, "SUSPICIOUS".toList, "LIE".toList]

/-- validateOutput -/
def outputValid (r : LLMResult) : Bool :=
  validVerdicts.contains (toUpperAscii r.verdict) &&
  !(infixOf "ignore previous".toList (toLowerAscii r.evidence)) &&
  !(infixOf "system prompt".toList (toLowerAscii r.evidence))

inductive Verdict where
  | result (r : LLMResult)   -- the provider's own answer is passed through
  | error
  | lie
  | suspicious
  deriving Repr, DecidableEq

structure CallLLMOut where
  verdict : Verdict
  requests : Nat             -- HTTP requests issued (both calls, all retries)
  deriving Repr

/-- CallLLM given the exchanges of the sentinel call and of the main call -/
def callLLM (sentinelResps mainResps : List Resp) : CallLLMOut :=
  let (so, k1) := callRaw maxAttempts sentinelResps
  match so with
  | .text st =>
    match decodeSentinel (cleanJSONMarkdown st) with
    | .err => ⟨.error, k1⟩
    | .ok sen =>
      if !sen.safe then ⟨.lie, k1⟩
      else
        let (mo, k2) := callRaw maxAttempts mainResps
        match mo with
        | .text mt =>
          match decodeLLMResult (cleanJSONMarkdown mt) with
          | .err => ⟨.error, k1 + k2⟩
          | .ok r => if outputValid r then ⟨.result r, k1 + k2⟩ else ⟨.suspicious, k1 + k2⟩
        | _ => ⟨.error, k1 + k2⟩
  | _ => ⟨.error, k1⟩

def verdictString : Verdict → Str
  | .result r => r.verdict
  | .error => "ERROR".toList
  | .lie => "LIE".toList
  | .suspicious => "SUSPICIOUS".toList

/-- RunAudit's strict verdict → exit status switch -/
def exitOf (v : Str) : Nat :=
  if v = "MATCH".toList ∨ v = "preserved".toList then 0 else 1

/-- RunAudit after the diff: no high-risk change ⇒ automatic MATCH; otherwise the LLM decides -/
def runAudit (highRisk : Bool) (sentinelResps mainResps : List Resp) : Str × Nat :=
  if !highRisk then ("MATCH".toList, 0)
  else let v := verdictString (callLLM sentinelResps mainResps).verdict; (v, exitOf v)

end Sfw.Audit
