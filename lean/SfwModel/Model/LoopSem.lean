/-
  C12 — what a loop summary CLAIMS, and what a counted loop really does.

  * `SCEV.eval env` is the reading of a SCEV tree at concrete argument values (the harness'
    `evalSCEV` is its Go twin): constants, argument values, + - * truncated-division, max.
  * `Counted` is the reference semantics of a counted loop, defined by ITERATING the update
    (`headerVal (k+1) = headerVal k + step`), not by the closed form; `headerValW` is the same
    loop on w-bit machine integers with wrap-around.
  * `Counted.runs n`: the continue test holds at header evaluations 0..n-1 and fails at the n-th,
    i.e. the body executes exactly n times.
-/
import SfwModel.Model.Canon.ScevAnalysis
namespace Sfw.Canon

/-- the value of a SCEV expression when the SSA values it mentions have the values `env` gives -/
def SCEV.eval (env : Val → Option Int) : SCEV → Option Int
  | .addRec _ _ _ _ => none
  | .const v => some v
  | .unknown none _ => none
  | .unknown (some v) _ => env v
  | .generic op x y =>
    match x.eval env, y.eval env with
    | some a, some b =>
      if op == "+" then some (a + b)
      else if op == "-" then some (a - b)
      else if op == "*" then some (a * b)
      else if op == "/" then (if b == 0 then none else some (bigQuo a b))
      else none
    | _, _ => none
  | .comm op x y =>
    match x.eval env, y.eval env with
    | some a, some b =>
      if op == "+" then some (a + b)
      else if op == "*" then some (a * b)
      else none
    | _, _ => none
  | .max x y =>
    match x.eval env, y.eval env with
    | some a, some b => some (if a > b then a else b)
    | _, _ => none

/-- the continue test of a counted loop, as a condition on the loop variable -/
inductive Cmp where
  | lt | le | gt | ge | ne
  deriving DecidableEq, Repr

def Cmp.holds : Cmp → Int → Int → Bool
  | .lt, i, l => decide (i < l)
  | .le, i, l => decide (i ≤ l)
  | .gt, i, l => decide (i > l)
  | .ge, i, l => decide (i ≥ l)
  | .ne, i, l => decide (i ≠ l)

/-- Go's comparison operators on integers -/
def goCmp (op : String) (x y : Int) : Option Bool :=
  if op == "<" then some (decide (x < y))
  else if op == "<=" then some (decide (x ≤ y))
  else if op == ">" then some (decide (x > y))
  else if op == ">=" then some (decide (x ≥ y))
  else if op == "==" then some (decide (x = y))
  else if op == "!=" then some (decide (x ≠ y))
  else none

/-- the `Cmp` that the flags of `deriveTripCount` stand for -/
def cmpOfFlags (isUp isInclusive isNEQ : Bool) : Cmp :=
  if isNEQ then .ne
  else if isUp then (if isInclusive then .le else .lt)
  else (if isInclusive then .ge else .gt)

structure Counted where
  start : Int
  step  : Int
  limit : Int
  cmp   : Cmp
  deriving Repr

/-- value of the loop variable at the k-th evaluation of the header, by iterating `i += step` -/
def Counted.headerVal (c : Counted) : Nat → Int
  | 0 => c.start
  | k + 1 => c.headerVal k + c.step

/-- the same loop on w-bit two's-complement integers (Go's `int` is w = 64) -/
def Counted.headerValW (w : Nat) (c : Counted) : Nat → BitVec w
  | 0 => BitVec.ofInt w c.start
  | k + 1 => c.headerValW w k + BitVec.ofInt w c.step

/-- the body executes exactly `n` times -/
def Counted.runs (c : Counted) (n : Nat) : Prop :=
  (∀ k, k < n → c.cmp.holds (c.headerVal k) c.limit = true) ∧
  c.cmp.holds (c.headerVal n) c.limit = false

/-- executable count with fuel: `none` when the loop is still running after `fuel` iterations -/
def Counted.bodyCount (c : Counted) : Nat → Nat → Option Nat
  | 0, _ => none
  | fuel + 1, k =>
    if c.cmp.holds (c.start + k * c.step) c.limit then c.bodyCount fuel (k + 1) else some k

end Sfw.Canon
