/-
  C18 — models of
   * PebbleScanner.MigrateFromJSON's streaming decode loop (token level),
   * the JSON backend's add/get bookkeeping (jsondb.Scanner: slice + ID → slot map),
   * the atomic-replace protocol of jsondb.Scanner.SaveDatabase (file-system trace level).
-/
import SfwModel.Model.Store
namespace Sfw.Migrate
open Sfw Sfw.Store

/-! ### token-level model of the decode loop -/

inductive Tok where
  | objOpen
  | objClose
  | arrOpen
  | arrClose
  | key (k : Str)
  | other            -- any complete non-signature value (string, number, object, ...)
  | sig (s : Sig)    -- one complete signature object inside the "signatures" array
  deriving Repr, DecidableEq

/-- what is left of the file: complete tokens, then possibly a partial (cut) token, then EOF -/
structure Stream where
  toks : List Tok
  partialTail : Bool
  deriving Repr

inductive Res where
  | error (imported : List Sig)   -- an error is reported (some batches may already be committed)
  | ok (imported : List Sig)      -- success: these signatures were handed to AddSignatures
  deriving Repr, DecidableEq

def isClose : Tok → Bool
  | .objClose => true
  | .arrClose => true
  | _ => false

/-- `dec.More()`: a next byte exists and is not ']' / '}' -/
def more (s : Stream) : Bool :=
  match s.toks with
  | t :: _ => !isClose t
  | [] => s.partialTail

/-- the inner loop over the signatures array: `for dec.More() { dec.Decode(&sig) … }`, then the `]` token -/
def importSigs : Nat → Stream → List Sig → Res × Stream
  | 0, s, acc => (.error acc.reverse, s)
  | fuel + 1, s, acc =>
    if more s then
      match s.toks with
      | .sig x :: rest => importSigs fuel { s with toks := rest } (x :: acc)
      | _ => (.error acc.reverse, s)              -- partial or ill-typed element: Decode fails
    else
      match s.toks with
      | .arrClose :: rest => (.ok acc.reverse, { s with toks := rest })
      | _ => (.error acc.reverse, s)              -- EOF / wrong token instead of ']'

/-- the outer loop over the top-level keys -/
def outer : Nat → Stream → Bool → List Sig → Res
  | 0, _, _, acc => .error acc
  | fuel + 1, s, found, acc =>
    if more s then
      match s.toks with
      | .key k :: rest =>
        if k = "signatures".toList then
          match rest with
          | .arrOpen :: rest' =>
            match importSigs (rest'.length + 2) { s with toks := rest' } [] with
            | (.ok l, s') => outer fuel s' true (acc ++ l)
            | (.error l, _) => .error (acc ++ l)
          | _ => .error acc                        -- Token() for '[' fails or is something else
        else
          match rest with
          | .other :: rest' => outer fuel { s with toks := rest' } found acc   -- Decode(&ignore)
          | _ :: _ => .error acc                   -- structure the generator never produces
          | [] => if s.partialTail then .error acc  -- ignored Decode error, then Token() reports it
                  -- key, then clean EOF: the ignored Decode fails silently and More() ends the loop
                  else outer fuel { s with toks := [] } found acc
      | _ => .error acc                            -- partial key / non-string token
    else
      if found then .ok acc else .error acc         -- missing 'signatures' array

/-- MigrateFromJSON on a token stream -/
def migrateToks (s : Stream) : Res :=
  match s.toks with
  | .objOpen :: rest => outer (rest.length + 2) { s with toks := rest } false []
  | _ => .error []

/-- a well-formed database file: leading keys, the signatures array, trailing keys -/
def fileToks (pre : List Str) (sigs : List Sig) (post : List Str) : List Tok :=
  [.objOpen] ++ pre.flatMap (fun k => [.key k, .other]) ++
  [.key "signatures".toList, .arrOpen] ++ sigs.map .sig ++ [.arrClose] ++
  post.flatMap (fun k => [.key k, .other]) ++ [.objClose]

/-! ### jsondb.Scanner: slice + map -/

structure JsonDb where
  sigs : List Sig
  slot : List (Key × Nat)      -- sigMap: ID bytes → index into `sigs` (later entries win)
  deriving Repr

def JsonDb.empty : JsonDb := ⟨[], []⟩

def JsonDb.add (d : JsonDb) (s : Sig) : JsonDb :=
  { sigs := d.sigs ++ [s], slot := (bytes s.id, d.sigs.length) :: d.slot.filter (fun e => e.1 ≠ bytes s.id) }

def JsonDb.addMany (d : JsonDb) (l : List Sig) : JsonDb := l.foldl JsonDb.add d

def JsonDb.get (d : JsonDb) (id : Str) : Option Sig :=
  match d.slot.find? (fun e => e.1 = bytes id) with
  | some (_, i) => d.sigs[i]?
  | none => none

/-! ### SaveDatabase: atomic replace protocol -/

inductive FsOp where
  | create (f : Str)               -- open a NEW file for writing (O_CREAT|O_EXCL)
  | openWrite (f : Str)            -- open an EXISTING path for writing / truncating
  | write (f : Str)
  | fsync (f : Str)
  | close (f : Str)
  | rename (src dst : Str)
  | remove (f : Str)
  deriving Repr, DecidableEq

def dirOf (p : Str) : Str := (p.reverse.dropWhile (· ≠ '/')).reverse

structure PState where
  tmp : Option Str := none   -- the temp file created by this save
  written : Bool := false     -- at least one write went to it
  dirty : Bool := false       -- written since the last fsync
  synced : Bool := false      -- fsynced after its last write
  closed : Bool := false
  deriving Repr

/-- one step of the protocol checker; `none` = violation.  The temp file may only be written,
    fsynced, closed and finally renamed onto the target; any other operation that names it (or the
    target) is a violation. -/
def protoStep (target : Str) (st : PState) : FsOp → Option PState
  | .create f =>
    if st.tmp.isNone ∧ f ≠ target ∧ dirOf f = dirOf target then some { tmp := some f } else none
  | .openWrite f => if f ≠ target ∧ st.tmp ≠ some f then some st else none
  | .write f =>
    if st.tmp = some f ∧ !st.closed then some { st with written := true, dirty := true, synced := false } else none
  | .fsync f => if st.tmp = some f then some { st with dirty := false, synced := st.written } else some st
  | .close f => if st.tmp = some f then some { st with closed := true } else some st
  | .rename src dst =>
    if dst = target then
      (if st.tmp = some src ∧ st.written ∧ !st.dirty ∧ st.synced ∧ st.closed then some {} else none)
    else if src = target ∨ st.tmp = some src ∨ st.tmp = some dst then none else some st
  | .remove f => if f ≠ target ∧ st.tmp ≠ some f then some st else none

/-- the protocol: only a fresh temp file in the SAME directory is written; it is fsynced after
    its last write and closed before `rename(temp, target)`; the target is never opened for
    writing, removed, or renamed away; nothing else is renamed onto the target -/
def followsProtocol (target : Str) (trace : List FsOp) : Bool :=
  (trace.foldl (fun (st : Option PState) op => st.bind (fun s => protoStep target s op)) (some {})).isSome

/-- durable-content model: each file has current data and the data that would survive a crash
    (what was there at its last fsync); `rename` is atomic and carries both along -/
structure FileSt where
  cur : Option Str      -- none = does not exist
  durable : Option Str
  deriving Repr, DecidableEq

abbrev Disk := List (Str × FileSt)

def Disk.get (d : Disk) (f : Str) : FileSt :=
  match d.find? (fun e => e.1 = f) with
  | some e => e.2
  | none => ⟨none, none⟩

def Disk.put (d : Disk) (f : Str) (s : FileSt) : Disk := (f, s) :: d.filter (fun e => e.1 ≠ f)

/-- effect of one operation on the disk; `newData` is what the writer intends the new file to
    contain (consecutive write calls on the temp file are collapsed into one abstract `write`) -/
def applyFs (newData : Str) (d : Disk) : FsOp → Disk
  | .create f => d.put f ⟨some [], none⟩
  | .openWrite f => d.put f ⟨some [], (d.get f).durable⟩
  | .write f => d.put f ⟨some newData, (d.get f).durable⟩
  | .fsync f => d.put f ⟨(d.get f).cur, (d.get f).cur⟩
  | .close _ => d
  | .rename src dst => (d.put dst (d.get src)).put src ⟨none, none⟩
  | .remove f => d.put f ⟨none, none⟩

/-- what `target` contains after a crash that happens after the first `k` operations:
    only fsynced data survives -/
def crashContent (newData : Str) (d0 : Disk) (trace : List FsOp) (k : Nat) (target : Str) : Option Str :=
  (((trace.take k).foldl (applyFs newData) d0).get target).durable

end Sfw.Migrate
