/-
  C16 — model of cli.CollectFiles (internal/cli/utils.go) over an abstract directory tree, and of
  the per-file result slots + strict-mode decision of cli.ProcessFilesParallel / RunCheckLogic.

  `filepath.WalkDir` visits a directory's entries in lexical order and prunes a subtree when the
  callback returns SkipDir; the model walks the children in the order given (the harness sends them
  sorted).  Names are lists of characters.
-/
namespace Sfw.Walk

abbrev Name := List Char

mutual
  inductive Tree where
    | file (name : Name)
    | dir  (name : Name) (kids : Forest)
  inductive Forest where
    | nil
    | cons (t : Tree) (rest : Forest)
end

def goSuffix : Name := ".go".toList
def testSuffix : Name := "_test.go".toList

/-- `strings.HasSuffix(path, ".go")` (a path ends like its base name) -/
def hasGoSuffix (n : Name) : Bool := goSuffix.isSuffixOf n

/-- `isTestFile`: base name of at least 8 bytes ending in `_test.go` -/
def isTestFile (n : Name) : Bool := decide (8 ≤ n.length) && testSuffix.isSuffixOf n

/-- a directory the walk does not enter (unless it is the target itself): `vendor`, or a name of
    more than one character starting with '.' -/
def skippedDir (n : Name) : Bool :=
  n == "vendor".toList || (decide (1 < n.length) && n.head? == some '.')

/-- a file the walk collects -/
def wantedFile (n : Name) : Bool := hasGoSuffix n && !isTestFile n

mutual
  /-- the callback of `WalkDir` below the target: `prefix` is the path so far -/
  def walkTree (pre : List Name) : Tree → List (List Name)
    | .file n => if wantedFile n then [pre ++ [n]] else []
    | .dir n kids => if skippedDir n then [] else walkForest (pre ++ [n]) kids
  def walkForest (pre : List Name) : Forest → List (List Name)
    | .nil => []
    | .cons t rest => walkTree pre t ++ walkForest pre rest
end

/-- `CollectFiles(target)` for a directory target: the target itself is never skipped -/
def collect (target : Name) (kids : Forest) : List (List Name) := walkForest [target] kids

mutual
  /-- every file of the tree with its path, whatever it is -/
  def allFilesTree (pre : List Name) : Tree → List (List Name)
    | .file n => [pre ++ [n]]
    | .dir n kids => allFilesForest (pre ++ [n]) kids
  def allFilesForest (pre : List Name) : Forest → List (List Name)
    | .nil => []
    | .cons t rest => allFilesTree pre t ++ allFilesForest pre rest
end

/-- the DECLARATIVE rule of the property for a path `target :: d₁ :: … :: dₖ :: [file]`:
    non-test Go file, and no directory between the target and the file is vendor or hidden -/
def wantedPath (p : List Name) : Bool :=
  match p with
  | [] => false
  | _target :: rest =>
    match rest.getLast? with
    | none => false
    | some f => wantedFile f && rest.dropLast.all (fun d => !skippedDir d)

/-! ### result slots and strict mode -/

/-- what a worker leaves in its slot -/
inductive Outcome where
  | functions (n : Nat)        -- analysed, n functions reported
  | error (msg : Name)         -- reported with an error message
  | panicked                   -- the worker panicked and was recovered: the slot keeps its zero value
  deriving DecidableEq, Repr

/-- `models.FileOutput` as far as the property looks at it -/
structure Slot where
  file : Option (List Name)    -- `File` ("" = none)
  err  : Bool                  -- ErrorMessage != ""
  deriving DecidableEq, Repr

def slotOf (path : List Name) : Outcome → Slot
  | .functions _ => ⟨some path, false⟩
  | .error _ => ⟨some path, true⟩
  | .panicked => ⟨none, false⟩

/-- ProcessFilesParallel: slot i is the outcome of file i; hasErrors = some slot has a message -/
def processAll (files : List (List Name)) (outcome : List Name → Outcome) : List Slot × Bool :=
  let slots := files.map (fun f => slotOf f (outcome f))
  (slots, slots.any (·.err))

/-- RunCheckLogic's exit: error when no files, or in strict mode when any slot has an error -/
def checkFails (files : List (List Name)) (strict : Bool) (outcome : List Name → Outcome) : Bool :=
  files.isEmpty || (strict && (processAll files outcome).2)

end Sfw.Walk
