/-
  C01 — the pooled Canonicalizer protocol (canonicalizer.go AcquireCanonicalizer /
  ReleaseCanonicalizer / fullReset, fingerprinter.go GenerateFingerprint).

  `σ` is everything `fullReset` re-initialises (the regenerated fact `C01_reset_covers_fields` says
  that this is every field except Policy, StrictMode and the self-resetting scratch builder);
  `body` is ALL the work done between acquire and release — an arbitrary function of the policy,
  the object's state and the function, which may leave the object arbitrarily dirty.
  `sync.Pool.Get` may hand out any pooled object or a fresh one: `pick` is the scheduler's choice.
-/
namespace Sfw.Pool

structure Obj (σ : Type) where
  policy : Nat
  state  : σ

structure Sys (σ Fn Out : Type) where
  init : σ
  body : Nat → σ → Fn → Out × σ

variable {σ Fn Out : Type}

def fullReset (S : Sys σ Fn Out) (o : Obj σ) : Obj σ := { o with state := S.init }

/-- `AcquireCanonicalizer(policy)`: Get, set Policy, fullReset -/
def acquire (S : Sys σ Fn Out) (pool : List (Obj σ)) (pick policy : Nat) : Obj σ × List (Obj σ) :=
  match pool[pick]? with
  | some o => (fullReset S { o with policy := policy }, pool.eraseIdx pick)
  | none => (fullReset S ⟨policy, S.init⟩, pool)

/-- `ReleaseCanonicalizer`: fullReset, Put -/
def release (S : Sys σ Fn Out) (pool : List (Obj σ)) (o : Obj σ) : List (Obj σ) := fullReset S o :: pool

/-- one sequential `GenerateFingerprint` -/
def fingerprint (S : Sys σ Fn Out) (pool : List (Obj σ)) (pick policy : Nat) (fn : Fn) :
    Out × List (Obj σ) :=
  let (o, pool) := acquire S pool pick policy
  let (out, st) := S.body o.policy o.state fn
  (out, release S pool { o with state := st })

/-- what a fresh, never-used canonicaliser computes -/
def fresh (S : Sys σ Fn Out) (policy : Nat) (fn : Fn) : Out := (S.body policy S.init fn).1

/-! ### concurrent callers -/

inductive Ev (Fn : Type) where
  | start  (id pick policy : Nat) (fn : Fn)   -- a goroutine acquires an object
  | finish (id : Nat)                         -- it canonicalises, releases and reports

structure World (σ Fn Out : Type) where
  pool     : List (Obj σ)
  inflight : List (Nat × Obj σ × Fn)
  outs     : List (Nat × Fn × Out)            -- (policy, function, result) of finished calls

def step (S : Sys σ Fn Out) (w : World σ Fn Out) : Ev Fn → World σ Fn Out
  | .start id pick policy fn =>
    let (o, pool) := acquire S w.pool pick policy
    { w with pool := pool, inflight := (id, o, fn) :: w.inflight }
  | .finish id =>
    match w.inflight.find? (fun e => e.1 == id) with
    | none => w
    | some (_, o, fn) =>
      let (out, st) := S.body o.policy o.state fn
      { pool := release S w.pool { o with state := st },
        inflight := w.inflight.filter (fun e => e.1 != id),
        outs := (o.policy, fn, out) :: w.outs }

def run (S : Sys σ Fn Out) (w : World σ Fn Out) (evs : List (Ev Fn)) : World σ Fn Out :=
  evs.foldl (step S) w

end Sfw.Pool
