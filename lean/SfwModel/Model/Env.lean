/-
  C15 — model of `diff.GetHardenedEnv` (pkg/diff/fingerprinter.go).

  Go:   for e in os.Environ(): if strings.HasPrefix(strings.ToUpper(e), "<KEY>=") for one of the
        seven guarded keys then drop e else keep e;  finally append the seven fixed overrides.

  Entries are `List Char`; `upper` is a parameter (Go's strings.ToUpper); every theorem in
  Props/C15 holds for EVERY `upper`, so nothing about Unicode case mapping is assumed.
-/
import SfwModel.Model.Util
namespace Sfw.Env

def guardedKeys : List Str :=
  ["CGO_ENABLED".toList, "GOPROXY".toList, "GOFLAGS".toList, "GONOSUMDB".toList,
   "GOWORK".toList, "GO111MODULE".toList, "GOTOOLCHAIN".toList]

def fixedPairs : List (Str × Str) :=
  [("CGO_ENABLED".toList, "0".toList), ("GOPROXY".toList, "off".toList),
   ("GOFLAGS".toList, "-mod=readonly".toList), ("GONOSUMDB".toList, "*".toList),
   ("GOWORK".toList, "off".toList), ("GO111MODULE".toList, "on".toList),
   ("GOTOOLCHAIN".toList, "local".toList)]

def entry (kv : Str × Str) : Str := kv.1 ++ '=' :: kv.2

def fixedEnv : List Str := fixedPairs.map entry

/-- `strings.HasPrefix(upperE, KEY+"=")` for one of the guarded keys -/
def guarded (upper : Str → Str) (e : Str) : Bool :=
  guardedKeys.any (fun k => (k ++ ['=']).isPrefixOf (upper e))

def hardened (upper : Str → Str) (env : List Str) : List Str :=
  env.filter (fun e => !guarded upper e) ++ fixedEnv

/-- does entry `e` define exactly the variable `k` (case-sensitive, as on Unix)? -/
def defines (k : Str) (e : Str) : Bool := (k ++ ['=']).isPrefixOf e

/-- What a child process sees for key `k` when handed `env`: `os/exec` keeps the LAST
    entry for a duplicated key. -/
def effective (env : List Str) (k : Str) : Option Str :=
  (env.reverse.find? (defines k)).map (fun e => e.drop (k.length + 1))

/-- ASCII upper-casing plus the two non-ASCII runes Go's `unicode.ToUpper` maps INTO ASCII
    (U+017F long s → 'S', U+0131 dotless i → 'I').  Used only by the driver. -/
def goUpperChar (c : Char) : Char :=
  if 'a' ≤ c ∧ c ≤ 'z' then Char.ofNat (c.toNat - 32)
  else if c = Char.ofNat 0x17F then 'S'
  else if c = Char.ofNat 0x131 then 'I'
  else c

def goUpper (s : Str) : Str := s.map goUpperChar

end Sfw.Env
