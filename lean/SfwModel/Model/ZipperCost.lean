/-
  C17 — work bound of the zipper's matching loops (zipper.go matchUsers / propagate /
  matchTerminators / alignEntryBlock), counted in calls of `areEquivalent` (hook
  verifCountEquivalence).  Instructions and values are numbers; `fp` (getFingerprint), `equiv`
  (areEquivalent) and the referrer lists are arbitrary.
-/
namespace Sfw.ZipperCost

def MaxCandidates : Nat := 100

structure St where
  mappedOld : List Nat     -- keys of instrMap
  mappedNew : List Nat     -- keys of revInstrMap
  calls     : Nat          -- areEquivalent calls so far
  deriving Repr

/-- `newByOp[fp] = append(newByOp[fp], u)` while the bucket holds fewer than `cap` entries -/
def addCandidate (cap : Nat) (key u : Nat) : List (Nat × List Nat) → List (Nat × List Nat)
  | [] => if 0 < cap then [(key, [u])] else []   -- `len(newByOp[fp]) < MaxCandidates` also guards the first insert
  | (k, l) :: rest =>
    if k == key then (if l.length < cap then (k, l ++ [u]) :: rest else (k, l) :: rest)
    else (k, l) :: addCandidate cap key u rest

def buckets (cap : Nat) (fp : Nat → Nat) (mappedNew : List Nat) (usersNew : List Nat) : List (Nat × List Nat) :=
  usersNew.foldl (fun acc u => if mappedNew.contains u then acc else addCandidate cap (fp u) u acc) []

def bucketOf (bs : List (Nat × List Nat)) (key : Nat) : List Nat :=
  match bs.find? (fun e => e.1 == key) with
  | some e => e.2
  | none => []

/-- the inner `for _, uNew := range candidates` loop: skip mapped candidates, call areEquivalent on
    the others until one succeeds -/
def scanCandidates (equiv : Nat → Nat → Bool) (uOld : Nat) : List Nat → St → St
  | [], st => st
  | c :: cs, st =>
    if st.mappedNew.contains c then scanCandidates equiv uOld cs st
    else
      let st := { st with calls := st.calls + 1 }
      if equiv uOld c then { st with mappedOld := uOld :: st.mappedOld, mappedNew := c :: st.mappedNew }
      else scanCandidates equiv uOld cs st

/-- `matchUsers(usersOld, usersNew)` -/
def matchUsers (cap : Nat) (fp : Nat → Nat) (equiv : Nat → Nat → Bool) (usersOld usersNew : List Nat) (st : St) : St :=
  let bs := buckets cap fp st.mappedNew usersNew
  usersOld.foldl (fun st uOld =>
    if st.mappedOld.contains uOld then st
    else scanCandidates equiv uOld (bucketOf bs (fp uOld)) st) st

/-- `propagate` + `matchTerminators`: one matchUsers per queued value pair (each old value is queued
    at most once: `mapValue` returns early on a mapped value) and one for the terminators -/
def propagate (cap : Nat) (fp : Nat → Nat) (equiv : Nat → Nat → Bool)
    (refsOld refsNew : Nat → List Nat) (queue : List (Nat × Nat)) (st : St) : St :=
  queue.foldl (fun st p => matchUsers cap fp equiv (refsOld p.1) (refsNew p.2) st) st

end Sfw.ZipperCost
