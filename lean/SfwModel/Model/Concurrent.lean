/-
  C11 — interleaving model of scans running during database writes.

  Global state: the append-only list of committed store versions (a writer step appends the
  result of applying one atomic batch to the last version) and the current threshold / tolerance.
  A reader (ScanTopologyWithSnapshot / ScanCandidates) performs, as separate atomic steps that
  may interleave with any number of writer steps:
     1. read threshold and tolerance (under the RLock),
     2. take a snapshot (remember the index of the current version),
     3. iterate the topo: and fuzzy: index ranges OF THE SNAPSHOT,
     4. one `Get` per surviving hit — from the snapshot (`fromSnapshot = true`, the real code) or
        from the live store (`fromSnapshot = false`, what `s.db.Get` would do),
     5. match, filter, sort.
-/
import SfwModel.Model.Store
namespace Sfw.Concurrent
open Sfw Sfw.Store

structure World where
  versions : List KV          -- oldest first; never empty
  thr : Rat
  tol : Rat
  deriving Repr

def World.cur (w : World) : KV := w.versions.getLast?.getD []

inductive ReaderPhase where
  | start
  | configured (thr tol : Rat)
  | snapped (thr tol : Rat) (snap : Nat)
  | fetching (thr tol : Rat) (snap : Nat) (todo : List Val) (seen : List Key) (acc : List Sig)
  | done (result : List MatchResult) (snap : Nat) (thr tol : Rat)
  deriving Repr

inductive Ev where
  | commit (b : List BOp)      -- a writer commits one batch
  | setThr (x : Rat)
  | setTol (x : Rat)
  | reader                     -- the reader performs its next atomic step
  deriving Repr

structure Cfg where
  H : Str
  t : Topo
  fromSnapshot : Bool

def version (w : World) (i : Nat) : KV := (w.versions[i]?).getD []

/-- one reader step -/
def readerStep (c : Cfg) (w : World) : ReaderPhase → ReaderPhase
  | .start => .configured w.thr w.tol
  | .configured thr tol => .snapped thr tol (w.versions.length - 1)
  | .snapped thr tol snap =>
    let kv := version w snap
    let hits := ((prefixIter kv (topoPrefix c.H)) ++ (prefixIter kv (fuzzyPrefix (fuzzyHash c.t)))).map (·.2)
    .fetching thr tol snap hits [] []
  | .fetching thr tol snap [] _ acc =>
    .done (alertsOf c.H c.t acc.reverse thr tol) snap thr tol
  | .fetching thr tol snap (v :: rest) seen acc =>
    match idOfIndexVal v with
    | none => .fetching thr tol snap rest seen acc
    | some (id, pk) =>
      if seen.contains (bytes id) then .fetching thr tol snap rest seen acc
      else if !entropyPrefilter c.t tol pk then .fetching thr tol snap rest seen acc
      else
        let src := if c.fromSnapshot then version w snap else w.cur
        match getSig src id with
        | some s => .fetching thr tol snap rest (bytes id :: seen) (s :: acc)
        | none => .fetching thr tol snap rest (bytes id :: seen) acc
  | .done r s a b => .done r s a b

def stepWorld (w : World) : Ev → World
  | .commit b => { w with versions := w.versions ++ [applyBatch w.cur b] }
  | .setThr x => { w with thr := x }
  | .setTol x => { w with tol := x }
  | .reader => w

def stepAll (c : Cfg) : World × ReaderPhase → Ev → World × ReaderPhase
  | (w, p), .reader => (w, readerStep c w p)
  | (w, p), e => (stepWorld w e, p)

def runSchedule (c : Cfg) (w : World) (evs : List Ev) : World × ReaderPhase :=
  evs.foldl (stepAll c) (w, .start)

end Sfw.Concurrent
