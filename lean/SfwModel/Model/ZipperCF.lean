/-
  C04 / C09 — zipper.go `enforceControlFlow`: the pass that undoes matches the control-flow graphs do
  not support (fixes "structural matching respects the control-flow graph" and "... keeps the order
  of matched instructions within a block").  CORE ONLY.

  A function is seen through its layout only: for every block the ids of its instructions in order,
  its successors and predecessors, and which instructions are phis.  Instruction ids are global
  (consecutive in block order, as the exporter numbers them).
-/
namespace Sfw.ZipperCF

structure Layout where
  /-- instruction ids of every block, in order -/
  blocks : Array (List Nat)
  succs  : Array (List Nat)
  preds  : Array (List Nat)
  /-- ids of the phi instructions -/
  phis   : List Nat
  deriving Repr, Inhabited

/-- block and position of an instruction -/
def Layout.locate (l : Layout) (id : Nat) : Option (Nat × Nat) :=
  let rec go (k : Nat) : List (List Nat) → Option (Nat × Nat)
    | [] => none
    | b :: bs =>
      match b.idxOf? id with
      | some p => some (k, p)
      | none => go (k + 1) bs
  go 0 l.blocks.toList

abbrev Pairs := List (Nat × Nat)

def partner (fwd : Pairs) (old : Nat) : Option Nat :=
  (fwd.find? (fun p => p.1 == old)).map (·.2)

/-- `blockOf`: old block ↦ block of the partner of its terminator -/
def blockOf (old new : Layout) (fwd : Pairs) (b : Nat) : Option Nat :=
  match old.blocks[b]? with
  | none => none
  | some instrs =>
    match instrs.getLast? with
    | none => none
    | some t =>
      match partner fwd t with
      | none => none
      | some t' => (new.locate t').map (·.1)

/-- `edgesCorrespond(old, new)`: same length and, wherever the old end is mapped, mapped to the new
    end at the same position -/
def edgesCorrespond (bo : Nat → Option Nat) : List Nat → List Nat → Bool
  | [], [] => true
  | a :: as, b :: bs => (match bo a with | some m => m == b | none => true) && edgesCorrespond bo as bs
  | _, _ => false

/-- the walk over the instructions of one old block whose partner block is `nb`: returns the old
    ids whose match is undone.  `last` is the position in `nb` of the latest partner that was kept
    (`none` = -1). -/
def badInBlock (old new : Layout) (fwd : Pairs) (bo : Nat → Option Nat) (b nb : Nat) :
    List Nat → Option Nat → List Nat
  | [], _ => []
  | instr :: rest, last =>
    match partner fwd instr with
    | none => badInBlock old new fwd bo b nb rest last
    | some m =>
      match new.locate m with
      | none => instr :: badInBlock old new fwd bo b nb rest last     -- `m.Block() != nb`
      | some (mb, mp) =>
        if mb != nb then instr :: badInBlock old new fwd bo b nb rest last
        else if (match last with | some l => decide (mp < l) | none => false) then
          instr :: badInBlock old new fwd bo b nb rest last
        else if rest.isEmpty && !edgesCorrespond bo (old.succs.getD b []) (new.succs.getD nb []) then
          instr :: badInBlock old new fwd bo b nb rest last
        else if old.phis.contains instr && !edgesCorrespond bo (old.preds.getD b []) (new.preds.getD nb []) then
          instr :: badInBlock old new fwd bo b nb rest last
        else badInBlock old new fwd bo b nb rest (some mp)

/-- the old ids whose match `enforceControlFlow` undoes -/
def badPairs (old new : Layout) (fwd : Pairs) : List Nat :=
  let bo := blockOf old new fwd
  (List.range old.blocks.size).flatMap (fun b =>
    match bo b with
    | none => []
    | some nb =>
      let instrs := old.blocks.getD b []
      if b == 0 && new.blocks.size > 0 && nb != 0 then
        (match instrs.getLast? with | some t => [t] | none => [])
      else badInBlock old new fwd bo b nb instrs none)

/-- `enforceControlFlow`: the surviving pairs -/
def enforce (old new : Layout) (fwd : Pairs) : Pairs :=
  let bad := badPairs old new fwd
  fwd.filter (fun p => !bad.contains p.1)

end Sfw.ZipperCF
