/-
  C14 — model of internal/sandbox/manager.go: generateSpec and prepareMountPoints.

  Host observations are parameters (which library paths exist, GOROOT/GOCACHE, and for every
  requested mount what EvalSymlinks returned and whether the result exists); `filepath.Abs` is
  modelled lexically (PathGuard.joinClean over the uncleaned components).
-/
import SfwModel.Model.PathGuard
namespace Sfw.Sandbox
open Sfw Sfw.PathGuard

structure Mount where
  dest : Str
  type : Str
  source : Str
  options : List Str
  deriving Repr, DecidableEq

/-- what the host reported for one requested mount -/
structure MountObs where
  request : Str             -- the string in cfg.Mounts
  evalOk : Bool             -- filepath.EvalSymlinks(abs) succeeded
  finalPath : Str           -- its result
  finalExists : Bool        -- os.Stat(finalPath) succeeded
  deriving Repr

structure Host where
  cwd : Path
  libExists : List Bool     -- for libPaths ++ [goroot] in order
  goroot : Str
  gocache : Str
  gocacheExists : Bool
  selfExe : Str
  uid : Nat
  gid : Nat
  deriving Repr

structure Spec where
  rootReadonly : Bool
  args : List Str
  env : List Str
  cwd : Str
  capsBounding : List Str
  capsEffective : List Str
  noNewPrivileges : Bool
  namespaces : List Str
  memLimit : Nat
  cpuShares : Nat
  pidsLimit : Nat
  mounts : List Mount
  uid : Nat
  gid : Nat
  deriving Repr

inductive Err where
  | reserved (abs : Str)
  | symlink (abs : Str)
  | missing (final : Str)
  deriving Repr, DecidableEq

def baseLibPaths : List Str :=
  ["/lib".toList, "/usr/lib".toList, "/lib64".toList, "/bin".toList, "/usr/bin".toList,
   "/usr/include".toList, "/usr/local/include".toList]

def reservedPaths : List Str :=
  ["/app/sfw".toList, "/proc".toList, "/sys".toList, "/dev".toList, "/tmp".toList, "/gocache".toList]

def roRbind : List Str := ["ro".toList, "rbind".toList]

/-- filepath.Abs: join with cwd unless absolute, then Clean -/
def absPath (cwd : Path) (p : Str) : Str := render (joinClean [] (absComps cwd p))

def destLe (a b : Mount) : Bool := decide (a.dest.map Char.toNat ≤ b.dest.map Char.toNat)

def sortMounts (l : List Mount) : List Mount := l.mergeSort destLe

def fixedMounts (selfExe : Str) : List Mount :=
  [ { dest := "/proc".toList, type := "proc".toList, source := "proc".toList, options := ["nosuid".toList, "nodev".toList] },
    { dest := "/dev".toList, type := "tmpfs".toList, source := "tmpfs".toList,
      options := ["nosuid".toList, "strictatime".toList, "mode=755".toList, "size=65536k".toList] },
    { dest := "/tmp".toList, type := "tmpfs".toList, source := "tmpfs".toList,
      options := ["nosuid".toList, "nodev".toList, "mode=1777".toList] },
    { dest := "/app/sfw".toList, type := "bind".toList, source := selfExe, options := ["ro".toList, "bind".toList] } ]

def userMounts (cwd : Path) : List MountObs → Except Err (List Mount)
  | [] => .ok []
  | o :: rest =>
    let abs := absPath cwd o.request
    if reservedPaths.contains abs then .error (.reserved abs)
    else if !o.evalOk then .error (.symlink abs)
    else if !o.finalExists then .error (.missing o.finalPath)
    else match userMounts cwd rest with
      | .ok ms => .ok ({ dest := abs, type := "bind".toList, source := o.finalPath, options := roRbind } :: ms)
      | .error e => .error e

def sandboxPathBase : Str := "/usr/local/go/bin:/usr/local/sbin:/usr/local/bin:/usr/sbin:/usr/bin:/sbin:/bin".toList

def genSpec (h : Host) (args : List Str) (workDir : Str) (reqs : List MountObs) : Except Err Spec :=
  let libPaths := if h.goroot ≠ [] then baseLibPaths ++ [h.goroot] else baseLibPaths
  let path := if h.goroot ≠ [] then h.goroot ++ "/bin:".toList ++ sandboxPathBase else sandboxPathBase
  let libMounts := (libPaths.zip h.libExists).filterMap (fun pe =>
    if pe.2 then some ({ dest := pe.1, type := "bind".toList, source := pe.1, options := roRbind } : Mount) else none)
  let cacheMounts : List Mount := if h.gocache ≠ [] ∧ h.gocacheExists then
      [{ dest := "/gocache".toList, type := "bind".toList, source := h.gocache, options := roRbind }] else []
  let envCaches : List Str :=
    if h.gocache ≠ [] then (if h.gocacheExists then ["GOCACHE=/gocache".toList] else [])
    else ["GOCACHE=/tmp/gocache".toList]
  match userMounts h.cwd reqs with
  | .error e => .error e
  | .ok ums =>
    .ok { rootReadonly := true,
          args := "/app/sfw".toList :: args,
          env := ["PATH=".toList ++ path, "GOPATH=/tmp/gopath".toList, "HOME=/tmp".toList, "GOPROXY=off".toList,
                  "SFW_SANDBOX_ID=1".toList] ++ envCaches,
          cwd := workDir,
          capsBounding := [], capsEffective := [],
          noNewPrivileges := true,
          namespaces := ["pid".toList, "network".toList, "ipc".toList, "uts".toList, "mount".toList, "user".toList],
          memLimit := 512 * 1024 * 1024, cpuShares := 1024, pidsLimit := 64,
          mounts := sortMounts (fixedMounts h.selfExe ++ libMounts ++ cacheMounts ++ ums),
          uid := h.uid, gid := h.gid }

/-! ### prepareMountPoints: the escape check -/

/-- `filepath.Join(rootfs, dest)` then `filepath.Rel(rootfs, ·)` must not start with ".." or "/" -/
def escapes (rootfs : Path) (dest : Str) : Bool :=
  let joined := joinClean rootfs (splitSlash dest)
  if rootfs.isPrefixOf joined then
    -- `strings.HasPrefix(rel, "..")` also fires for a first component that merely STARTS with ".."
    match joined.drop rootfs.length with
    | c :: _ => ['.', '.'].isPrefixOf c
    | [] => false
  else true

def prepareOk (rootfs : Path) (mounts : List Mount) : Bool := mounts.all (fun m => !escapes rootfs m.dest)

/-- `a` is a proper ancestor directory of `b` (as clean absolute path strings) -/
def isAncestor (a b : Str) : Bool := a ≠ b && ((a ++ ['/']).isPrefixOf b || a = ['/'])

end Sfw.Sandbox
