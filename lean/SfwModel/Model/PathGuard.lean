/-
  C20 — model of the database path guard in pebbledb.NewPebbleScanner (after the `fix:` commit
  "resolve the deepest existing ancestor, compare component-wise").

  File system: finite map from absolute component lists to nodes; symlink targets are raw
  strings.  `evalSym` is Go's filepath.EvalSymlinks (walkSymlinks): components are taken one at a
  time, ".." pops the already-resolved prefix, a symlink's target is spliced in front of the
  remaining components, a missing component is an IsNotExist error, more than 255 links is
  another error.  `resolveLoc` is the guard's new helper: EvalSymlinks on ever shorter prefixes
  of the (uncleaned) absolute path until one exists, then the remainder is joined lexically.
-/
import SfwModel.Model.Util
namespace Sfw.PathGuard

inductive Node where
  | dir
  | file
  | link (target : Str)
  deriving Repr, DecidableEq

abbrev Path := List Str          -- absolute path as components
abbrev FS := List (Path × Node)

def FS.lookup (fs : FS) (p : Path) : Option Node := (fs.find? (fun e => e.1 = p)).map (·.2)

/-- split a raw path string at '/' (empty components are kept; they are skipped by the walk) -/
def splitSlash (s : Str) : List Str :=
  let rec go : List Char → Str → List Str → List Str
    | [], cur, acc => (cur.reverse :: acc).reverse
    | c :: cs, cur, acc => if c = '/' then go cs [] (cur.reverse :: acc) else go cs (c :: cur) acc
  go s [] []

def isAbs (s : Str) : Bool := s.head? = some '/'

inductive Res where
  | ok (p : Path)
  | notExist
  | otherErr
  deriving Repr, DecidableEq

/-- filepath.EvalSymlinks from directory `cur` over the remaining components `todo`.
    `links` counts followed symlinks (limit 255); `fuel` bounds the total number of steps. -/
def evalSym (fs : FS) : Nat → Nat → Path → List Str → Res
  | 0, _, _, _ => .otherErr
  | _ + 1, _, cur, [] => .ok cur
  | fuel + 1, links, cur, c :: rest =>
    if c = [] ∨ c = ['.'] then evalSym fs fuel links cur rest
    else if c = ['.', '.'] then evalSym fs fuel links cur.dropLast rest
    else match fs.lookup (cur ++ [c]) with
      | none => .notExist
      | some (.link tgt) =>
        if links ≥ 255 then .otherErr
        else if isAbs tgt then evalSym fs fuel (links + 1) [] (splitSlash tgt ++ rest)
        else evalSym fs fuel (links + 1) cur (splitSlash tgt ++ rest)
      | some .file => if rest.all (fun r => r = [] ∨ r = ['.']) then .ok (cur ++ [c]) else .otherErr
      | some .dir => evalSym fs fuel links (cur ++ [c]) rest

def stepFuel : Nat := 100000

/-- lexical clean of components appended to an already resolved directory (filepath.Join) -/
def joinClean (base : Path) : List Str → Path
  | [] => base
  | c :: rest =>
    if c = [] ∨ c = ['.'] then joinClean base rest
    else if c = ['.', '.'] then joinClean base.dropLast rest
    else joinClean (base ++ [c]) rest

/-- the uncleaned absolute component list of `p` relative to `cwd` -/
def absComps (cwd : Path) (p : Str) : List Str :=
  if isAbs p then splitSlash p else cwd ++ splitSlash p

/-- resolveDBLocation: try EvalSymlinks on prefixes of length k = n, n-1, …, 0 -/
def resolveFrom (fs : FS) (comps : List Str) : Nat → Res
  | 0 => match evalSym fs stepFuel 0 [] [] with
         | .ok r => .ok (joinClean r comps)
         | e => e
  | k + 1 =>
    match evalSym fs stepFuel 0 [] (comps.take (k + 1)) with
    | .ok r => .ok (joinClean r (comps.drop (k + 1)))
    | .notExist => resolveFrom fs comps k
    | .otherErr => .otherErr

def resolveLoc (fs : FS) (cwd : Path) (p : Str) : Res :=
  let comps := absComps cwd p
  resolveFrom fs comps comps.length

def protectedDirs : List Path :=
  [["etc".toList], ["root".toList], ["usr".toList], ["bin".toList], ["sbin".toList], ["boot".toList]]

/-- component-wise containment: `loc == dir || strings.HasPrefix(loc, dir + "/")` on clean paths -/
def inside (loc dir : Path) : Bool := dir.isPrefixOf loc

inductive Decision where
  | refused
  | pass
  | error
  deriving Repr, DecidableEq

/-- the guard: refuse iff the resolved location lies inside a protected directory, or inside the
    place a protected directory itself resolves to (e.g. /bin -> /usr/bin) -/
def guard (fs : FS) (cwd : Path) (p : Str) : Decision :=
  match resolveLoc fs cwd p with
  | .ok loc =>
    if protectedDirs.any (fun d => inside loc d ||
        (match evalSym fs stepFuel 0 [] d with | .ok r => inside loc r | _ => false))
    then .refused else .pass
  | _ => .error

/-! ### specification: where the database would really be -/

/-- one physical walk (what the kernel does for mkdir -p / open): symlinks followed, ".."
    physical; from the first missing component on, the remaining components are appended
    lexically -/
def realWalk (fs : FS) : Nat → Nat → Path → List Str → Res
  | 0, _, _, _ => .otherErr
  | _ + 1, _, cur, [] => .ok cur
  | fuel + 1, links, cur, c :: rest =>
    if c = [] ∨ c = ['.'] then realWalk fs fuel links cur rest
    else if c = ['.', '.'] then realWalk fs fuel links cur.dropLast rest
    else match fs.lookup (cur ++ [c]) with
      | none => .ok (joinClean cur (c :: rest))
      | some (.link tgt) =>
        if links ≥ 255 then .otherErr
        else if isAbs tgt then realWalk fs fuel (links + 1) [] (splitSlash tgt ++ rest)
        else realWalk fs fuel (links + 1) cur (splitSlash tgt ++ rest)
      | some .file => if rest.all (fun r => r = [] ∨ r = ['.']) then .ok (cur ++ [c]) else .otherErr
      | some .dir => realWalk fs fuel links (cur ++ [c]) rest

def realLocation (fs : FS) (cwd : Path) (p : Str) : Res :=
  realWalk fs stepFuel 0 [] (absComps cwd p)

/-- the OLD guard (before the fix), kept to state what was wrong with it:
    EvalSymlinks(p) or else Abs(p), then a raw STRING prefix test -/
def render (p : Path) : Str := if p.isEmpty then ['/'] else p.flatMap (fun c => '/' :: c)

def oldGuardRefuses (resolved : Str) : Bool :=
  protectedDirs.any (fun d => (render d).isPrefixOf resolved)

end Sfw.PathGuard
