/-
  Shared helpers for the executable models and the line-protocol driver.
  CORE ONLY (no Mathlib): everything under Model/ is linked into the `sfwmodel` executable.
-/
namespace Sfw

abbrev Str := List Char

def hexDigit (n : Nat) : Char :=
  if n < 10 then Char.ofNat (48 + n) else Char.ofNat (87 + n)

def hexVal (c : Char) : Option Nat :=
  if '0' ≤ c ∧ c ≤ '9' then some (c.toNat - 48)
  else if 'a' ≤ c ∧ c ≤ 'f' then some (c.toNat - 87)
  else if 'A' ≤ c ∧ c ≤ 'F' then some (c.toNat - 55)
  else none

/-- hex string → bytes; `none` on odd length or a non-hex digit -/
def hexDecodeBytes (s : String) : Option (List Nat) :=
  let rec go : List Char → List Nat → Option (List Nat)
    | [], acc => some acc.reverse
    | [_], _ => none
    | a :: b :: rest, acc =>
      match hexVal a, hexVal b with
      | some x, some y => go rest ((16 * x + y) :: acc)
      | _, _ => none
  go s.toList []

def bytesToByteArray (bs : List Nat) : ByteArray :=
  bs.foldl (fun acc b => acc.push b.toUInt8) ByteArray.empty

/-- hex → String (valid UTF-8 required); the marker "-" encodes the empty string -/
def hexDecode (s : String) : Option String :=
  if s == "-" then some "" else
  match hexDecodeBytes s with
  | none => none
  | some bs => String.fromUTF8? (bytesToByteArray bs)

def hexEncodeBytes (bs : List Nat) : String :=
  if bs.isEmpty then "-" else
  String.ofList (bs.foldr (fun b acc => hexDigit (b / 16) :: hexDigit (b % 16) :: acc) [])

def hexEncode (s : String) : String :=
  hexEncodeBytes (s.toUTF8.toList.map (·.toNat))

def strBytes (s : String) : List Nat := s.toUTF8.toList.map (·.toNat)

/-- parse "num/den" or "num" into a Rat -/
def parseRat (s : String) : Option Rat :=
  match s.splitOn "/" with
  | [n] => n.toInt?.map (fun i => (i : Rat))
  | [n, d] =>
    match n.toInt?, d.toNat? with
    | some i, some k => if k = 0 then none else some ((i : Rat) / (k : Rat))
    | _, _ => none
  | _ => none

def showRat (q : Rat) : String := s!"{q.num}/{q.den}"

def boolStr (b : Bool) : String := if b then "1" else "0"

def parseBool (s : String) : Bool := s == "1"

def chomp (line : String) : String :=
  String.ofList (line.toList.reverse.dropWhile (fun c => c == '\n' || c == '\r')).reverse

def fields (line : String) : List String := (chomp line).splitOn "\t"

/-- comma-separated hex list; "" ↦ [] -/
def parseHexList (s : String) : Option (List String) :=
  if s == "" then some [] else (s.splitOn ",").mapM hexDecode

def showHexList (l : List String) : String :=
  String.intercalate "," (l.map hexEncode)

end Sfw
