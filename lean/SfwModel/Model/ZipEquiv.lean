/-
  C04 / C09 — the zipper's instruction-equivalence decision (zipper.go areEquivalent = kind check,
  type check, compareOps, compareOperands with compareOperandPair / compareOneOperand), on VIEWS of
  the two instructions taken at the moment of the decision:
    * an operand view says whether the operand slot is nil, the identity of the value, whether it is
      "linkable" (instruction / parameter / free variable), the identity its OLD value is mapped to
      in valMap at this moment, the key of its type, and the text NormalizeOperand gives for it with
      and without the using instruction as context (only consulted for non-linkable values);
    * type keys: two types are `types.Identical` iff their keys are equal (the harness builds the key
      from the type's structure and the identity of every named type it mentions).
  The rendering of operands is the canonicaliser's (Model/Canon); here it is input data.
-/
namespace Sfw.ZipEquiv

structure OpView where
  nilSlot  : Bool            -- the *ssa.Value slot holds nil
  ident    : Nat             -- identity of the value within its function
  linkable : Bool
  mapped   : Option Nat      -- valMap[valA] (old side only): identity of the new value
  hasType  : Bool
  typeKey  : String
  canonCtx : String          -- NormalizeOperand(val, instr)
  canonNil : String          -- NormalizeOperand(val, nil)
  deriving Repr, DecidableEq

structure InstrView where
  kind     : String          -- reflect.TypeOf
  isValue  : Bool
  typeKey  : String          -- key of the value's type
  op       : String          -- BinOp / UnOp operator
  flag     : Bool            -- UnOp/TypeAssert CommaOk · Call IsInvoke · Alloc Heap · Select Blocking
  name     : String          -- invoked method name
  num      : Int             -- Field / FieldAddr field · Extract index
  auxKey   : String          -- TypeAssert asserted type · MakeInterface: key of the boxed value's type
  binBasic   : Bool          -- BinOp: result type is basic
  binString  : Bool          --        … with IsString
  binNumeric : Bool          --        … with IsInteger|IsFloat|IsComplex
  ops      : List OpView
  deriving Repr, DecidableEq

/-- `compareOps` -/
def compareOps (a b : InstrView) : Bool :=
  if a.kind == "*ssa.BinOp" then a.op == b.op
  else if a.kind == "*ssa.UnOp" then a.op == b.op && a.flag == b.flag
  else if a.kind == "*ssa.Call" then
    if a.flag != b.flag then false else if a.flag then a.name == b.name else true
  else if a.kind == "*ssa.Field" || a.kind == "*ssa.FieldAddr" || a.kind == "*ssa.Extract" then a.num == b.num
  else if a.kind == "*ssa.Alloc" || a.kind == "*ssa.Select" then a.flag == b.flag
  else if a.kind == "*ssa.TypeAssert" then a.auxKey == b.auxKey && a.flag == b.flag
  else if a.kind == "*ssa.MakeInterface" then a.typeKey == b.typeKey && a.auxKey == b.auxKey
  else if a.kind == "*ssa.ChangeType" || a.kind == "*ssa.Convert"
      || a.kind == "*ssa.MakeSlice" || a.kind == "*ssa.MakeMap" || a.kind == "*ssa.MakeChan"
      || a.kind == "*ssa.Slice" || a.kind == "*ssa.ChangeInterface" || a.kind == "*ssa.SliceToArrayPointer" then
    a.typeKey == b.typeKey
  else true

/-- `compareOneOperand` (the commutative path: no context for NormalizeOperand, no phi rule) -/
def compareOneOperand (x y : OpView) : Bool :=
  if x.nilSlot && y.nilSlot then true
  else if x.nilSlot || y.nilSlot then false
  else match x.mapped with
    | some m => m == y.ident
    | none => if x.linkable then false else x.canonNil == y.canonNil

/-- one step of the positional loop of `compareOperands` -/
def compareOperandAt (isPhi : Bool) (x y : OpView) : Bool :=
  if x.nilSlot && y.nilSlot then true
  else if x.nilSlot || y.nilSlot then false
  else match x.mapped with
    | some m => m == y.ident
    | none =>
      if x.linkable then
        if isPhi then
          if !y.linkable then false
          else if x.hasType && y.hasType then x.typeKey == y.typeKey else true
        else false
      else x.canonCtx == y.canonCtx

/-- the strictly gated commutativity of `compareOperands` -/
def allowSwap (a : InstrView) : Bool :=
  a.kind == "*ssa.BinOp" && a.ops.length == 2 &&
    (if a.op == "+" || a.op == "*" || a.op == "&" || a.op == "|" || a.op == "^" then
       a.binBasic && !a.binString && a.binNumeric
     else a.op == "==" || a.op == "!=")

/-- `compareOperands` -/
def compareOperands (a b : InstrView) : Bool :=
  if a.ops.length != b.ops.length then false
  else if allowSwap a then
    match a.ops, b.ops with
    | [a0, a1], [b0, b1] =>
      (compareOneOperand a0 b0 && compareOneOperand a1 b1) ||
      (compareOneOperand a0 b1 && compareOneOperand a1 b0)
    | _, _ => false
  else (a.ops.zip b.ops).all (fun p => compareOperandAt (a.kind == "*ssa.Phi") p.1 p.2)

/-- `areEquivalent` -/
def areEquivalent (a b : InstrView) : Bool :=
  if a.kind != b.kind then false
  else if a.isValue && a.typeKey != b.typeKey then false
  else if !compareOps a b then false
  else compareOperands a b

end Sfw.ZipEquiv
