/-
  C04 — decision logic of cli.CompareFunctions (internal/cli/diff_logic.go): which verdict a pair of
  fingerprint results gets.  The zipper's outcome is an input.
-/
namespace Sfw.CompareFn

/-- what `diff.NewZipper(...).ComputeDiff()` can come back with -/
inductive ZipperResult where
  | refused                          -- nil SSA function, parameter mismatch or an error
  | done (added removed : Nat)       -- sizes of the Added / Removed lists
  deriving DecidableEq, Repr

inductive Verdict where
  | preservedByFingerprint
  | preservedByZipper
  | modified
  deriving DecidableEq, Repr

structure Side where
  fingerprint : String
  oversized   : Bool       -- diff.IsOversized(fingerprint): the function was not canonicalised
  deriving DecidableEq, Repr

/-- `CompareFunctions` -/
def compare (old new : Side) (z : ZipperResult) : Verdict :=
  if old.fingerprint == new.fingerprint then .preservedByFingerprint
  else if old.oversized || new.oversized then .modified
  else match z with
    | .refused => .modified
    | .done added removed => if added == 0 && removed == 0 then .preservedByZipper else .modified

def Verdict.preserved : Verdict → Bool
  | .modified => false
  | _ => true

end Sfw.CompareFn
