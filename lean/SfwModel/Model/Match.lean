/-
  Model of pkg/detection/engine.go (MatchSignature, ComputeTopologySimilarity, MatchCalls,
  MatchStrings, IndexFunction, ExtractStringPatterns, GenerateTopologyHash's pre-image),
  of topology.GenerateFuzzyHash and topology.TopologySimilarity (pkg/analysis/topology), and
  of the alert pipeline shared by both backends (filter by threshold, sort by confidence).

  Arithmetic is exact (`Rat`); Go uses float64.  NaN is an explicit constructor because Go
  computes `1 - dist/tol` with `dist = tol = 0` as NaN and every comparison with NaN is false,
  whereas Lean's `0/0 = 0` would hide that case.
-/
import SfwModel.Model.Util
namespace Sfw

/-- `strings.Contains s sub` -/
def containsSub : Str → Str → Bool
  | [], sub => sub.isEmpty
  | c :: cs, sub => sub.isPrefixOf (c :: cs) || containsSub cs sub

def asciiLowerChar (c : Char) : Char :=
  if 'A' ≤ c ∧ c ≤ 'Z' then Char.ofNat (c.toNat + 32) else c

/-- `strings.ToLower` restricted to ASCII (generator alphabet; recorded in the trusted base) -/
def asciiLower (s : Str) : Str := s.map asciiLowerChar

structure Topo where
  paramCount : Int
  returnCount : Int
  blockCount : Int
  instrCount : Int
  loopCount : Int
  branchCount : Int
  calls : List (Str × Nat)      -- CallSignatures, no duplicate keys
  instrs : List (Str × Nat)     -- InstrCounts
  binops : List (Str × Nat)     -- BinOpCounts
  paramTypes : List Str
  returnTypes : List Str
  hasDefer : Bool
  hasPanic : Bool
  hasGo : Bool
  hasSelect : Bool
  hasRange : Bool
  strings : List Str            -- StringLiterals
  entropy : Rat
  deriving Repr, DecidableEq

structure Sig where
  id : Str
  name : Str
  severity : Str
  topoHash : Str
  fuzzyHash : Str
  entropy : Rat
  tol : Rat
  nodeCount : Int
  loopDepth : Int
  required : List Str
  patterns : List Str
  extra : Str := []        -- canonical rendering of the fields no lookup reads (description, category, ...)
  refs : List Str := []    -- Metadata.References (MarkFalsePositive appends to it)
  deriving Repr, DecidableEq

inductive Conf where
  | nan
  | val (q : Rat)
  deriving Repr, DecidableEq

/-- IEEE `conf >= thr` -/
def Conf.ge (c : Conf) (thr : Rat) : Bool :=
  match c with
  | .nan => false
  | .val q => decide (thr ≤ q)

/-- IEEE `a > b` used by the exact-mode best-result update and the descending sort -/
def Conf.gt (a b : Conf) : Bool :=
  match a, b with
  | .val x, .val y => decide (y < x)
  | _, _ => false

def Conf.add (a b : Conf) : Conf :=
  match a, b with
  | .val x, .val y => .val (x + y)
  | _, _ => .nan

def Conf.divNat (a : Conf) (n : Nat) : Conf :=
  match a with
  | .val x => .val (x / n)
  | .nan => .nan

def sumConf (l : List Conf) : Conf := l.foldl Conf.add (.val 0)

def meanConf (l : List Conf) : Conf := (sumConf l).divNat l.length

def ratAbs (q : Rat) : Rat := if q < 0 then -q else q

/-- ratio a/b folded into (0,1]: `r := a/b; if r > 1 { r = 1/r }` -/
def foldRatio (a b : Int) : Rat :=
  let r : Rat := (a : Rat) / (b : Rat)
  if 1 < r then 1 / r else r

def meanRat (l : List Rat) : Rat := l.foldl (· + ·) 0 / (l.length : Rat)

/-- the score list of ComputeTopologySimilarity -/
def simScores (t : Topo) (s : Sig) : List Rat :=
  (if 0 < s.nodeCount ∧ 0 ≤ t.blockCount then [foldRatio t.blockCount s.nodeCount]
   else if 0 < s.nodeCount ∧ t.blockCount < 0 then [0] else []) ++
  (if 0 < s.loopDepth ∧ 0 ≤ t.loopCount then
      (if t.loopCount = s.loopDepth then [1]
       else if 0 < t.loopCount then [foldRatio t.loopCount s.loopDepth] else [0])
   else if 0 < s.loopDepth ∧ t.loopCount < 0 then [0] else [])

/-- ComputeTopologySimilarity -/
def sigSimilarity (t : Topo) (s : Sig) : Rat :=
  if (simScores t s).isEmpty then 1/2 else meanRat (simScores t s)

/-- MatchCalls: (matched, missing) — `found` iff some call signature contains `req` -/
def matchCalls (t : Topo) (required : List Str) : List Str × List Str :=
  let found := fun req => t.calls.any (fun c => containsSub c.1 req)
  (required.filter found, required.filter (fun r => !found r))

/-- MatchStrings: matched patterns (case-insensitive containment in some literal) -/
def matchStrings (t : Topo) (patterns : List Str) : List Str :=
  patterns.filter (fun p => t.strings.any (fun lit => containsSub (asciiLower lit) (asciiLower p)))

def utf8Len (s : Str) : Nat := (String.ofList s).utf8ByteSize

def natStr (n : Int) : Str := (toString n).toList

/-- sort strings by byte order (Go's sort.Strings); inputs are ASCII in the differential -/
def strLe (a b : Str) : Bool := decide (a.map Char.toNat ≤ b.map Char.toNat)

def sortStrs (l : List Str) : List Str := l.mergeSort strLe

def intercalateStr (sep : Str) : List Str → Str
  | [] => []
  | [x] => x
  | x :: xs => x ++ sep ++ intercalateStr sep xs

/-- the string GenerateTopologyHash feeds to SHA-256 -/
def topoHashInput (t : Topo) : Str :=
  let callStrs := t.calls.map (fun c => natStr (utf8Len c.1 : Nat) ++ [':'] ++ c.1 ++ [':'] ++ natStr (c.2 : Nat))
  "P".toList ++ natStr t.paramCount ++ "R".toList ++ natStr t.returnCount ++ "B".toList ++ natStr t.blockCount ++
  "I".toList ++ natStr t.instrCount ++ "L".toList ++ natStr t.loopCount ++ "BR".toList ++ natStr t.branchCount ++
  intercalateStr [';'] (sortStrs callStrs) ++
  (if t.hasDefer then ['D'] else []) ++ (if t.hasGo then ['G'] else []) ++
  (if t.hasSelect then ['S'] else []) ++ (if t.hasPanic then ['P'] else [])

/-- floor(log2 n) for n ≥ 1 (Go: int(math.Log2(float64(n))) — exact for the sizes that occur) -/
def log2Floor (n : Nat) : Nat := Nat.log2 n

def fuzzyHash (t : Topo) : Str :=
  let b := if 0 < t.blockCount then log2Floor t.blockCount.toNat else 0
  let br := if 0 < t.branchCount then log2Floor t.branchCount.toNat + 1 else 0
  let l := if 5 < t.loopCount then 5 else t.loopCount
  "B".toList ++ natStr b ++ "L".toList ++ natStr l ++ "BR".toList ++ natStr br ++
  "P".toList ++ natStr t.paramCount ++ "R".toList ++ natStr t.returnCount

/-- topology.TopologyFingerprint: the short shape string the diff report prints for either side of a
    matched pair (`old_topology` / `new_topology`).  The Go code ranges over the CallSignatures MAP,
    sorts the keys, and prints at most three of them followed by `,...(n)`. -/
def topoFingerprint (t : Topo) : Str :=
  let calls := sortStrs (t.calls.map (·.1))
  let callStr :=
    if 3 < calls.length then
      intercalateStr [','] (calls.take 3) ++ ",...(".toList ++ natStr (calls.length : Nat) ++ [')']
    else intercalateStr [','] calls
  "L".toList ++ natStr t.loopCount ++ "B".toList ++ natStr t.branchCount ++ "I".toList ++ natStr t.instrCount ++
  ['['] ++ callStr ++ [']']

structure MatchResult where
  sigId : Str
  sigName : Str
  conf : Conf
  topoMatch : Bool
  topoSim : Rat
  entropyMatch : Bool
  entropyDist : Rat
  callsMatched : List Str
  callsMissing : List Str
  stringsMatched : List Str
  deriving Repr, DecidableEq

/-- MatchSignature.  `H` is the topology hash of the scanned function (SHA-256 of
    `topoHashInput`, computed by the caller so that theorems can quantify over it). -/
def matchSignature (H : Str) (t : Topo) (s : Sig) (defaultTol : Rat) : MatchResult :=
  let hashEq := decide (H = s.topoHash)
  let sim : Rat := if hashEq then 1 else sigSimilarity t s
  let topoMatch := if hashEq then true else decide ((4 : Rat) / 5 < sim)
  let tol := if s.tol = 0 then defaultTol else s.tol
  let dist := ratAbs (t.entropy - s.entropy)
  let eMatch := decide (dist ≤ tol)
  let eScore : Conf := if eMatch then (if tol = 0 then .nan else .val (1 - dist / tol)) else .val (1/2)
  let scores0 : List Conf := [.val sim, eScore]
  let mc := matchCalls t s.required
  let base : MatchResult := { sigId := s.id, sigName := s.name, conf := .val 0, topoMatch := topoMatch, topoSim := sim,
                              entropyMatch := eMatch, entropyDist := dist, callsMatched := [], callsMissing := [],
                              stringsMatched := [] }
  if !s.required.isEmpty ∧ !mc.2.isEmpty then
    { base with callsMatched := mc.1, callsMissing := mc.2 }     -- veto: confidence 0
  else
    let scores1 := if !s.required.isEmpty then
        scores0 ++ [.val ((mc.1.length : Rat) / (s.required.length : Rat))] else scores0
    let ms := matchStrings t s.patterns
    let sScore : Rat := (ms.length : Rat) / (s.patterns.length : Rat)
    let scores2 := if !s.patterns.isEmpty ∧ 0 < sScore then scores1 ++ [.val sScore] else scores1
    { base with conf := meanConf scores2,
                callsMatched := if s.required.isEmpty then [] else mc.1,
                callsMissing := [],
                stringsMatched := if s.patterns.isEmpty then [] else ms }

/-- sort key of an alert: its confidence (alerts that passed `conf >= thr` are never NaN) -/
def confKey (r : MatchResult) : Rat :=
  match r.conf with
  | .val q => q
  | .nan => 0

/-- alert pipeline shared by both backends: match each candidate, keep `conf >= thr`,
    order by descending confidence (stable model of Go's sort.Slice) -/
def confLe (a b : MatchResult) : Bool := decide (confKey b ≤ confKey a)

def alertsOf (H : Str) (t : Topo) (cands : List Sig) (thr defaultTol : Rat) : List MatchResult :=
  ((cands.map (fun s => matchSignature H t s defaultTol)).filter (fun r => r.conf.ge thr)).mergeSort confLe

/-- JSON backend, full mode -/
def jsonScanFull (H : Str) (t : Topo) (db : List Sig) (thr defaultTol : Rat) : List MatchResult :=
  alertsOf H t db thr defaultTol

/-- JSON backend, exact mode: first signature WITH THE SAME TOPOLOGY HASH whose confidence
    (tolerance 0.0) reaches 0.99 -/
def jsonScanExact (H : Str) (t : Topo) (db : List Sig) : Option MatchResult :=
  ((db.filter (fun s => decide (s.topoHash = H))).map (fun s => matchSignature H t s 0)).find?
    (fun r => r.conf.ge (99/100))

/-- `strings.Trim(lit, "\"'`")` -/
def trimQuotes (s : Str) : Str :=
  let q := fun c => c == '"' || c == '\'' || c == '`'
  ((s.dropWhile q).reverse.dropWhile q).reverse

def dedupStrs : List Str → List Str
  | [] => []
  | x :: xs => x :: (dedupStrs xs).filter (· ≠ x)

/-- ExtractStringPatterns -/
def extractPatterns (lits : List Str) : List Str :=
  sortStrs (dedupStrs ((lits.filter (fun l => 3 ≤ utf8Len l)).map trimQuotes |>.filter (fun c => 3 ≤ utf8Len c)))

/-- IndexFunction (identifying fields only) -/
def indexFunction (H : Str) (t : Topo) (id name severity : Str) : Sig :=
  { id := id, name := name, severity := severity, topoHash := H, fuzzyHash := fuzzyHash t,
    entropy := t.entropy, tol := 1/2, nodeCount := t.blockCount, loopDepth := t.loopCount,
    required := sortStrs (t.calls.map (·.1)), patterns := extractPatterns t.strings }

/-! ### topology.TopologySimilarity -/

def typeListSim (a b : List Str) : Rat :=
  if a.isEmpty ∧ b.isEmpty then 1
  else if a.isEmpty ∨ b.isEmpty then 0
  else ((2 * ((List.zip a b).filter (fun p => p.1 = p.2)).length : Nat) : Rat) / ((a.length + b.length : Nat) : Rat)

def lookupCount (m : List (Str × Nat)) (k : Str) : Nat :=
  match m.find? (fun e => e.1 = k) with
  | some e => e.2
  | none => 0

def hasKey (m : List (Str × Nat)) (k : Str) : Bool := m.any (fun e => e.1 = k)

/-- MapSimilarity: Σ min / (Σ_{k∈a} max + Σ_{k∈b∖a} b[k]) -/
def mapSim (a b : List (Str × Nat)) : Rat :=
  if a.isEmpty ∧ b.isEmpty then 1 else
  let inter := (a.map (fun e => min e.2 (lookupCount b e.1))).sum
  let uni := (a.map (fun e => max e.2 (lookupCount b e.1))).sum +
             ((b.filter (fun e => !hasKey a e.1)).map (·.2)).sum
  if uni = 0 then 1 else (inter : Rat) / (uni : Rat)

def intAbs (x : Int) : Int := if x < 0 then -x else x
def boolMatch (a b : Bool) : Rat := if a = b then 1 else 0

def topoSimilarity (a b : Topo) : Rat :=
  let loopS : Rat := if a.loopCount = b.loopCount then 2 else if intAbs (a.loopCount - b.loopCount) = 1 then 1 else 0
  let maxBr := max a.branchCount b.branchCount
  let brS : Rat := if 0 < maxBr then (1 - (intAbs (a.branchCount - b.branchCount) : Rat) / (maxBr : Rat)) * (3/2) else 3/2
  let bools : Rat := (boolMatch a.hasDefer b.hasDefer + boolMatch a.hasPanic b.hasPanic + boolMatch a.hasGo b.hasGo +
                      boolMatch a.hasSelect b.hasSelect + boolMatch a.hasRange b.hasRange) / 5
  let maxBl := max a.blockCount b.blockCount
  let blS : Rat := if 0 < maxBl then (1 - (intAbs (a.blockCount - b.blockCount) : Rat) / ((maxBl * 2 : Int) : Rat)) * (1/2) else 1/2
  (typeListSim a.paramTypes b.paramTypes * 3 + typeListSim a.returnTypes b.returnTypes * 2 + loopS + brS +
   mapSim a.calls b.calls * 4 + mapSim a.binops b.binops * 1 + mapSim a.instrs b.instrs * (1/2) + bools * 1 + blS) / (31/2)

end Sfw
