/-
  C09 (instruction level) — the bookkeeping of diff.Zipper: `instrMap` (old ↦ new) and
  `revInstrMap` (new ↦ old) are Go maps that only `recordInstrMatch` writes
  (Generated/Facts.lean: instrMapWriters / revInstrMapWriters), and every call site checks that the
  new instruction is not mapped yet (matchUsersRecordGuards) or visits each new instruction at most
  once (alignEntryBlock's LCS back-track).  Instructions are numbered; which pairs the matcher
  PROPOSES (fingerprint buckets, areEquivalent, sort order) is left arbitrary: the theorems hold for
  every sequence of proposals.
-/
namespace Sfw.Zipper

/-- a Go map as an association list: newest binding first, lookup takes the first hit
    (so `m[k] = v` is `(k, v) :: m`) -/
abbrev GoMap := List (Nat × Nat)

def GoMap.get (m : GoMap) (k : Nat) : Option Nat := (m.find? (fun p => p.1 == k)).map (·.2)
def GoMap.has (m : GoMap) (k : Nat) : Bool := (m.get k).isSome
def GoMap.keys (m : GoMap) : List Nat := (m.map (·.1)).eraseDups

structure Book where
  fwd : GoMap   -- instrMap
  rev : GoMap   -- revInstrMap
  deriving Repr

def Book.empty : Book := ⟨[], []⟩

/-- `recordInstrMatch(old, new)`: no-op if `old` is already mapped, else both maps are written -/
def Book.record (b : Book) (o n : Nat) : Book :=
  if b.fwd.has o then b else ⟨(o, n) :: b.fwd, (n, o) :: b.rev⟩

/-- a proposal made by a call site that first checks `revInstrMap[new]` (matchUsers) -/
def Book.propose (b : Book) (o n : Nat) : Book :=
  if b.fwd.has o then b else if b.rev.has n then b else b.record o n

/-- the two maps are each other's inverse -/
def Book.Lockstep (b : Book) : Prop :=
  ∀ o n, b.fwd.get o = some n ↔ b.rev.get n = some o

/-- `isolateDivergence`: MatchedNodes, Removed, Added over the instruction numbers of the two
    functions (virtualised instructions are dropped from both lists by the caller) -/
def Book.matched (b : Book) : Nat := b.fwd.keys.length
def Book.removed (b : Book) (olds : List Nat) : List Nat := olds.filter (fun o => !b.fwd.has o)
def Book.added (b : Book) (news : List Nat) : List Nat := news.filter (fun n => !b.rev.has n)

end Sfw.Zipper
