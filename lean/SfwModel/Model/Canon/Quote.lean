/-
  Go's `fmt.Sprintf("%q", s)` = `strconv.Quote(s)` on a byte string that need not be valid UTF-8.
-/
import SfwModel.Model.Canon.MiniSSA
namespace Sfw.Canon

/-- a continuation byte 0x80..0xBF -/
def isCont (b : Nat) : Bool := 0x80 ≤ b && b ≤ 0xBF

/-- `utf8.DecodeRune` on the head of a byte list: `some (rune, width)` for a well-formed
    encoding (shortest form, no surrogates, ≤ U+10FFFF), `none` for an invalid byte, which Go
    reports as (RuneError, 1) -/
def decodeRune : List Nat → Option (Nat × Nat)
  | [] => none
  | b0 :: rest =>
    if b0 < 0x80 then some (b0, 1)
    else if 0xC2 ≤ b0 && b0 ≤ 0xDF then
      match rest with
      | b1 :: _ => if isCont b1 then some ((b0 - 0xC0) * 64 + (b1 - 0x80), 2) else none
      | _ => none
    else if 0xE0 ≤ b0 && b0 ≤ 0xEF then
      match rest with
      | b1 :: b2 :: _ =>
        let lo := if b0 == 0xE0 then 0xA0 else 0x80
        let hi := if b0 == 0xED then 0x9F else 0xBF
        if lo ≤ b1 && b1 ≤ hi && isCont b2 then
          some ((b0 - 0xE0) * 4096 + (b1 - 0x80) * 64 + (b2 - 0x80), 3)
        else none
      | _ => none
    else if 0xF0 ≤ b0 && b0 ≤ 0xF4 then
      match rest with
      | b1 :: b2 :: b3 :: _ =>
        let lo := if b0 == 0xF0 then 0x90 else 0x80
        let hi := if b0 == 0xF4 then 0x8F else 0xBF
        if lo ≤ b1 && b1 ≤ hi && isCont b2 && isCont b3 then
          some ((b0 - 0xF0) * 262144 + (b1 - 0x80) * 4096 + (b2 - 0x80) * 64 + (b3 - 0x80), 4)
        else none
      | _ => none
    else none

def hexN (width n : Nat) : String :=
  String.ofList ((List.range width).reverse.map (fun k => hexDigit ((n / 16 ^ k) % 16)))

/-- `strconv.IsPrint`, APPROXIMATED outside ASCII: letters, marks, numbers, punctuation, symbols
    and the ASCII space are printable.  The model lists the common NON-printable ranges (controls,
    non-ASCII spaces, format characters, surrogates, private use, non-characters) instead of
    go's full Unicode tables; unassigned code points are treated as printable. -/
def isPrintRune (r : Nat) : Bool :=
  if r < 0x20 then false
  else if r < 0x7F then true
  else if r ≤ 0xA0 then false                    -- DEL, C1 controls, NBSP
  else if r == 0xAD then false                   -- soft hyphen (Cf)
  else if r == 0x1680 || r == 0x180E then false
  else if 0x2000 ≤ r && r ≤ 0x200F then false    -- spaces, ZW(N)J, direction marks
  else if 0x2028 ≤ r && r ≤ 0x202F then false
  else if 0x205F ≤ r && r ≤ 0x206F then false
  else if r == 0x3000 then false
  else if 0xD800 ≤ r && r ≤ 0xF8FF then false    -- surrogates, private use
  else if r == 0xFEFF then false
  else if 0xFFF0 ≤ r && r ≤ 0xFFFB then false
  else if r == 0xFFFE || r == 0xFFFF then false
  else if 0xE0000 ≤ r then false                 -- tags, private-use planes
  else true

/-- `appendEscapedRune` with quote `"`, ASCIIonly = graphicOnly = false -/
def escapeRune (r : Nat) : String :=
  if r == 0x22 then "\\\""
  else if r == 0x5C then "\\\\"
  else if isPrintRune r then String.singleton (Char.ofNat r)
  else if r == 7 then "\\a"
  else if r == 8 then "\\b"
  else if r == 12 then "\\f"
  else if r == 10 then "\\n"
  else if r == 13 then "\\r"
  else if r == 9 then "\\t"
  else if r == 11 then "\\v"
  else if r < 0x20 || r == 0x7F then "\\x" ++ hexN 2 r
  else if r < 0x10000 then "\\u" ++ hexN 4 r
  else "\\U" ++ hexN 8 r

/-- body of `strconv.Quote`; fuel = number of bytes (each step consumes at least one) -/
def quoteLoop : Nat → List Nat → String → String
  | 0, _, acc => acc
  | _ + 1, [], acc => acc
  | fuel + 1, b :: rest, acc =>
    match decodeRune (b :: rest) with
    | none => quoteLoop fuel rest (acc ++ "\\x" ++ hexN 2 b)
    | some (r, w) => quoteLoop fuel ((b :: rest).drop w) (acc ++ escapeRune r)

/-- `strconv.Quote` -/
def goQuote (bytes : List Nat) : String :=
  quoteLoop (bytes.length + 1) bytes "\"" ++ "\""

end Sfw.Canon
