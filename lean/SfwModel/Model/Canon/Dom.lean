/-
  Dominance, as go/ssa's `BasicBlock.Dominates` reports it (x_tools_ssa_dom.go).

  go/ssa builds a dominator forest with Lengauer–Tarjan; its roots are the entry block and, if
  present, the function's Recover block; `a.Dominates(b)` is "a is an ancestor-or-self of b".
  The model uses the DEFINITION of dominance instead of the algorithm:
      a dominates b  ⇔  a = b, or b cannot be reached from a root without passing through a.
  (go/ssa guarantees that every block is reachable from a root.)
-/
import SfwModel.Model.Canon.MiniSSA
namespace Sfw.Canon

/-- roots of the dominator forest: entry block, then fn.Recover -/
def domRoots (f : Func) : List Nat :=
  (if f.nBlocks == 0 then [] else [0]) ++
  (match f.recover with
   | some r => if r == 0 then [] else [r]
   | none => [])

/-- worklist reachability that never enters `avoid`; `fuel` bounds the number of pops
    (every block is pushed at most once per incoming edge plus once as a root) -/
def reachAvoidLoop (f : Func) (avoid : Nat) : Nat → List Nat → Array Bool → Array Bool
  | 0, _, seen => seen
  | _ + 1, [], seen => seen
  | fuel + 1, b :: work, seen =>
    if b == avoid || bitGet seen b then reachAvoidLoop f avoid fuel work seen
    else reachAvoidLoop f avoid fuel (f.succs b ++ work) (bitSet seen b)

/-- the set of blocks reachable from the roots along paths that avoid `avoid` -/
def reachAvoid (f : Func) (avoid : Nat) : Array Bool :=
  reachAvoidLoop f avoid (f.nEdges + f.nBlocks + 3) (domRoots f) (Array.replicate f.nBlocks false)

/-- `a.Dominates(b)` -/
def dominates (f : Func) (a b : Nat) : Bool :=
  a == b || !(bitGet (reachAvoid f a) b)

end Sfw.Canon
