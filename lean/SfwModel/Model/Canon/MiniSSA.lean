/-
  MiniSSA — the data the Go exporter (`ssa_export.go`) prints for one `*ssa.Function`, and nothing
  else.  CORE ONLY (linked into the `sfwmodel` executable).

  Identity of values.  Go keys its maps (`registerMap`, `SCEVCache`, `virtualSubstitutions`) by
  the POINTER of an `ssa.Value`.  The model keys them by `Val`:
    * an instruction value is identified by its instruction id (position in block order),
    * parameters / free variables by their position,
    * globals by (package path, name), functions by (name, signature), builtins by name,
    * a constant by a `ConstId`.  go/ssa allocates a fresh `*ssa.Const` for every constant
      EXPRESSION, but one `*ssa.Const` can reach several operand slots (e.g. `i := 0` followed by
      a branch: after lifting, both phi edges carry the same pointer).  Pointer identity is
      observable: `classifyIV` compares the start values of a header phi with `!=`.  The base
      protocol does not print pointer identity, so by default every operand SITE (instruction
      id, operand position) is its own constant (`ConstId.site`); an exporter that prints a
      pointer id as an optional 8th field of a `c:` operand gets `ConstId.ptr`.
-/
import SfwModel.Model.Util
namespace Sfw.Canon

/-- `constant.Kind` of an `*ssa.Const` (`nil` = the Const has no `Value`) -/
inductive ConstKind where
  | nil | str | int | float | complex | bool | other
  deriving DecidableEq, Repr, Inhabited

/-- identity of an `*ssa.Const` (see the header comment) -/
inductive ConstId where
  | site (instr pos : Nat)
  | ptr (n : Nat)
  deriving DecidableEq, Repr, Inhabited

/-- an `*ssa.Const` operand as exported -/
structure Const where
  kind   : ConstKind
  /-- `Value.ExactString()` for every kind but `str` and `nil` -/
  text   : String
  /-- raw bytes of a string constant (Go strings need not be valid UTF-8) -/
  bytes  : List Nat
  /-- sanitizeType(c.Type()) -/
  typ    : String
  /-- `constant.Int64Val` is exact -/
  fits64 : Bool
  /-- the int64 value when `fits64` -/
  i64    : Int
  /-- models pointer identity -/
  cid    : ConstId
  deriving DecidableEq, Repr, Inhabited

/-- how a referenced function relates to the function under analysis (`Canonicalizer.funcRefName`) -/
inductive FuncRel where
  /-- the function under analysis itself (a recursive reference) -/
  | self
  /-- another member of its closure tree: `suffix` is the name with the outermost enclosing
      function's name stripped (`$1`, `$1$2`, or empty for the outermost function itself) -/
  | localTo (suffix : String)
  /-- any other function: referred to by its qualified name -/
  | external
  deriving DecidableEq, Repr, Inhabited

/-- an `ssa.Value` that can appear as an operand -/
inductive Val where
  | instr   (id : Nat)
  | param   (i : Nat)
  | freeVar (i : Nat)
  | const   (c : Const)
  | global  (pkg name typ : String)
  | builtin (name : String)
  | func    (qualified sig : String) (rel : FuncRel)
  deriving DecidableEq, Repr, Inhabited

/-- type flags of a value's Go type: 1 integer, 2 string, 4 float, 8 complex, 16 map-or-chan -/
abbrev TFlags := Nat
def TFlags.isInteger (t : TFlags) : Bool := t % 2 == 1
def TFlags.isString (t : TFlags) : Bool := (t / 2) % 2 == 1
def TFlags.isFloat (t : TFlags) : Bool := (t / 4) % 2 == 1
def TFlags.isComplex (t : TFlags) : Bool := (t / 8) % 2 == 1
def TFlags.isMapOrChan (t : TFlags) : Bool := (t / 16) % 2 == 1

/-- an operand slot: `val = none` is Go's nil operand (exported as `n`) -/
structure Operand where
  val : Option Val
  tf  : TFlags
  deriving DecidableEq, Repr, Inhabited

/-- the dynamic type of an `ssa.Instruction` (`%T` without the `*ssa.` prefix) -/
inductive Kind where
  | Call | Go | Defer | BinOp | UnOp | Phi | Alloc | Store | If | Jump | Return
  | IndexAddr | Index | Select | Range | Next | Extract | Slice | MakeSlice | MakeMap
  | MapUpdate | Lookup | TypeAssert | MakeInterface | ChangeType | Convert | ChangeInterface
  | SliceToArrayPointer | MultiConvert | RunDefers | Panic | MakeClosure | FieldAddr | Field
  | Send | MakeChan | DebugRef
  | other (name : String)
  deriving DecidableEq, Repr, Inhabited

def Kind.ofString : String → Kind
  | "Call" => .Call | "Go" => .Go | "Defer" => .Defer | "BinOp" => .BinOp | "UnOp" => .UnOp
  | "Phi" => .Phi | "Alloc" => .Alloc | "Store" => .Store | "If" => .If | "Jump" => .Jump
  | "Return" => .Return | "IndexAddr" => .IndexAddr | "Index" => .Index | "Select" => .Select
  | "Range" => .Range | "Next" => .Next | "Extract" => .Extract | "Slice" => .Slice
  | "MakeSlice" => .MakeSlice | "MakeMap" => .MakeMap | "MapUpdate" => .MapUpdate
  | "Lookup" => .Lookup | "TypeAssert" => .TypeAssert | "MakeInterface" => .MakeInterface
  | "ChangeType" => .ChangeType | "Convert" => .Convert | "ChangeInterface" => .ChangeInterface
  | "SliceToArrayPointer" => .SliceToArrayPointer | "MultiConvert" => .MultiConvert
  | "RunDefers" => .RunDefers | "Panic" => .Panic | "MakeClosure" => .MakeClosure
  | "FieldAddr" => .FieldAddr | "Field" => .Field | "Send" => .Send | "MakeChan" => .MakeChan
  | "DebugRef" => .DebugRef
  | s => .other s

def Kind.name : Kind → String
  | .Call => "Call" | .Go => "Go" | .Defer => "Defer" | .BinOp => "BinOp" | .UnOp => "UnOp"
  | .Phi => "Phi" | .Alloc => "Alloc" | .Store => "Store" | .If => "If" | .Jump => "Jump"
  | .Return => "Return" | .IndexAddr => "IndexAddr" | .Index => "Index" | .Select => "Select"
  | .Range => "Range" | .Next => "Next" | .Extract => "Extract" | .Slice => "Slice"
  | .MakeSlice => "MakeSlice" | .MakeMap => "MakeMap" | .MapUpdate => "MapUpdate"
  | .Lookup => "Lookup" | .TypeAssert => "TypeAssert" | .MakeInterface => "MakeInterface"
  | .ChangeType => "ChangeType" | .Convert => "Convert" | .ChangeInterface => "ChangeInterface"
  | .SliceToArrayPointer => "SliceToArrayPointer" | .MultiConvert => "MultiConvert"
  | .RunDefers => "RunDefers" | .Panic => "Panic" | .MakeClosure => "MakeClosure"
  | .FieldAddr => "FieldAddr" | .Field => "Field" | .Send => "Send" | .MakeChan => "MakeChan"
  | .DebugRef => "DebugRef"
  | .other s => s

/-- Go's `fmt.Sprintf("%T", instr)` -/
def Kind.goType (k : Kind) : String := "*ssa." ++ k.name

/-- one exported instruction.  The meaning of the generic fields depends on `kind`:
    * `op`  : BinOp / UnOp operator token
    * `b1`  : Call/Go/Defer IsInvoke · UnOp/Lookup/TypeAssert CommaOk · Alloc "element is an array"
              · Select Blocking
    * `n1`  : Extract index · Field/FieldAddr field · Alloc array length
    * `s1`  : invoke method name · Alloc element type · TypeAssert asserted type · Select dirs
              · MakeInterface: sanitizeType of the boxed value's type
    * `s2`  : Alloc array element type
    * `ops` : the operands, in the order of go/ssa's `Operands` -/
structure Instr where
  blk  : Nat
  id   : Nat
  kind : Kind
  /-- sanitizeType(v.Type()) for values -/
  typ  : String
  /-- not a value, or a value of type nil / empty tuple: gets no register -/
  void : Bool
  tf   : TFlags
  op   : String
  b1   : Bool
  b2   : Nat
  n1   : Int
  s1   : String
  s2   : String
  /-- referrers: (instruction id, kind) -/
  refs : List (Nat × Kind)
  ops  : List Operand
  deriving Repr, Inhabited, DecidableEq

structure Block where
  idx    : Nat
  succs  : List Nat
  preds  : List Nat
  instrs : List Instr
  deriving Repr, Inhabited

structure Func where
  name     : String
  /-- index of fn.Recover, if any -/
  recover  : Option Nat
  params   : List String
  freeVars : List String
  results  : List String
  blocks   : Array Block
  /-- all instructions, indexed by id (ids are consecutive in block order) -/
  instrs   : Array Instr
  deriving Repr, Inhabited

namespace Func

def nBlocks (f : Func) : Nat := f.blocks.size
def nInstrs (f : Func) : Nat := f.instrs.size

def block? (f : Func) (b : Nat) : Option Block := f.blocks[b]?

def succs (f : Func) (b : Nat) : List Nat :=
  match f.blocks[b]? with
  | some bl => bl.succs
  | none => []

def preds (f : Func) (b : Nat) : List Nat :=
  match f.blocks[b]? with
  | some bl => bl.preds
  | none => []

def blockInstrs (f : Func) (b : Nat) : List Instr :=
  match f.blocks[b]? with
  | some bl => bl.instrs
  | none => []

def instr? (f : Func) (id : Nat) : Option Instr := f.instrs[id]?

/-- the instruction behind a value, if the value is an instruction -/
def valInstr? (f : Func) : Val → Option Instr
  | .instr id => f.instr? id
  | _ => none

/-- total number of CFG edges -/
def nEdges (f : Func) : Nat := f.blocks.foldl (fun n b => n + b.succs.length) 0

end Func

/-- k-th operand slot of an instruction (`none` when absent or nil) -/
def Instr.opVal (i : Instr) (k : Nat) : Option Val :=
  match i.ops[k]? with
  | some o => o.val
  | none => none

def Instr.opTf (i : Instr) (k : Nat) : TFlags :=
  match i.ops[k]? with
  | some o => o.tf
  | none => 0

/-- `isTerminator` of canonicalizer.go -/
def Instr.isTerminator (i : Instr) : Bool :=
  match i.kind with
  | .If | .Jump | .Return | .Panic => true
  | _ => false

/-- Boolean array helpers (sets of block indices / instruction ids) -/
def bitGet (a : Array Bool) (i : Nat) : Bool := a.getD i false
def bitSet (a : Array Bool) (i : Nat) : Array Bool := a.setIfInBounds i true

/-- stable sort by a strict "less" predicate (Go's `sort.SliceStable(less)`) -/
def stableSortBy {α : Type} (lt : α → α → Bool) (l : List α) : List α :=
  l.mergeSort (fun a b => !(lt b a))

end Sfw.Canon
