/-
  C04 — what a `preserved` verdict of the structural matcher has to mean: a control-flow respecting,
  order-preserving one-to-one correspondence of the two functions in which corresponding instructions
  are the same operation on corresponding operands (`isoCheck`).  CORE ONLY.

  Tie: whenever the REAL zipper (diff.Zipper, after `enforceControlFlow`) reports a pair of functions
  of the interpreter's fragment as preserved with every instruction matched, the harness exports both
  functions and the zipper's own instruction map, and `isoCheck` must accept them (suite `zipeq`).
  Props/C04Sem.lean proves `isoCheck f g m = true → run f = run g` for every argument vector and fuel.
-/
import SfwModel.Model.Canon.Sem
namespace Sfw.Canon.Sem

/-- the correspondence the zipper ends with: instruction id of the old function ↦ id of the new one
    (total on the old function's instructions), block index ↦ block index -/
structure Matching where
  instr : Array Nat
  block : Array Nat
  deriving Repr, Inhabited

def Matching.im (m : Matching) (id : Nat) : Option Nat := m.instr[id]?
def Matching.bm (m : Matching) (b : Nat) : Option Nat := m.block[b]?

/-- corresponding operand slots: same flags; instruction values correspond through the matching,
    parameters by position, constants by value, builtins by name -/
def operandMatches (m : Matching) (o o' : Operand) : Bool :=
  o.tf == o'.tf &&
  match o.val, o'.val with
  | some (.instr d), some (.instr d') => m.im d == some d'
  | some (.param k), some (.param k') => k == k'
  | some (.const c), some (.const c') => constValue c o.tf == constValue c' o'.tf && (constValue c o.tf).isSome
  | some (.builtin n), some (.builtin n') => n == n'
  | _, _ => false

def operandsMatch (m : Matching) : List Operand → List Operand → Bool
  | [], [] => true
  | o :: os, o' :: os' => operandMatches m o o' && operandsMatch m os os'
  | _, _ => false

/-- the gate under which the zipper tries the two operands of a BinOp in exchanged order
    (`ZipEquiv.allowSwap` on the flags of the result type) -/
def swapAllowed (i : Instr) : Bool :=
  i.kind == .BinOp &&
  (if i.op == "+" || i.op == "*" || i.op == "&" || i.op == "|" || i.op == "^" then
     !i.tf.isString && (i.tf.isInteger || i.tf.isFloat || i.tf.isComplex)
   else i.op == "==" || i.op == "!=")

/-- corresponding instructions: same kind, operator, flags and flag-like fields; operands correspond
    position by position, or exchanged where the zipper's commutativity gate allows it -/
def instrMatches (m : Matching) (i i' : Instr) : Bool :=
  m.im i.id == some i'.id &&
  i.kind == i'.kind && i.op == i'.op && i.tf == i'.tf && i.b1 == i'.b1 && i.void == i'.void &&
  (operandsMatch m i.ops i'.ops ||
   (swapAllowed i &&
    match i.ops, i'.ops with
    | [x, y], [x', y'] => operandMatches m x y' && operandMatches m y x'
    | _, _ => false))

def instrsMatch (m : Matching) : List Instr → List Instr → Bool
  | [], [] => true
  | i :: is, i' :: is' => instrMatches m i i' && instrsMatch m is is'
  | _, _ => false

def natsMapTo (m : Matching) : List Nat → List Nat → Bool
  | [], [] => true
  | b :: bs, b' :: bs' => m.bm b == some b' && natsMapTo m bs bs'
  | _, _ => false

/-- no two entries of the array are equal -/
def injectiveArr (a : Array Nat) : Bool :=
  (List.range a.size).all (fun i => (List.range a.size).all (fun j =>
    i == j || a.getD i 0 != a.getD j 0))

/-- the two functions are the same program up to the numbering of blocks and instructions and the
    order of commutative operands -/
def isoCheck (f g : Func) (m : Matching) : Bool :=
  wfCheck f && wfCheck g &&
  f.blocks.size == g.blocks.size && f.instrs.size == g.instrs.size &&
  m.instr.size == f.instrs.size && m.block.size == f.blocks.size &&
  injectiveArr m.instr && injectiveArr m.block &&
  m.instr.all (· < g.instrs.size) && m.block.all (· < g.blocks.size) &&
  m.bm 0 == some 0 &&
  (List.range f.blocks.size).all (fun k =>
    match f.blocks[k]?, (m.bm k).bind (fun k' => g.blocks[k']?) with
    | some bl, some bl' =>
      natsMapTo m bl.succs bl'.succs && natsMapTo m bl.preds bl'.preds &&
      instrsMatch m bl.instrs bl'.instrs
    | _, _ => false)

end Sfw.Canon.Sem
