/-
  Tarjan's strongly-connected-components algorithm over nodes `0 … n-1`, exactly as written in
  `Canonicalizer.computeSCCs` (recursive, over blocks) and `findLoopSCCs` (scev.go; the same
  algorithm with an explicit work stack, over instructions).  The ORDER of the components and the
  order of the nodes inside a component are part of the observable behaviour, so the model keeps
  the textbook formulation: components are emitted when their root is finished, and a component
  lists its nodes in pop order (top of stack first, root last).
-/
import SfwModel.Model.Canon.MiniSSA
namespace Sfw.Canon

structure TarjanState where
  index    : Nat
  /-- head = top of stack -/
  stack    : List Nat
  onStack  : Array Bool
  indices  : Array (Option Nat)
  lowLinks : Array Nat
  /-- finished components, NEWEST FIRST (reverse for Go's `sccs`) -/
  sccs     : List (List Nat)
  deriving Repr, Inhabited

def TarjanState.init (n : Nat) : TarjanState :=
  { index := 0, stack := [], onStack := Array.replicate n false,
    indices := Array.replicate n none, lowLinks := Array.replicate n 0, sccs := [] }

def TarjanState.indexOf (st : TarjanState) (v : Nat) : Option Nat := (st.indices.getD v none)
def TarjanState.low (st : TarjanState) (v : Nat) : Nat := st.lowLinks.getD v 0
def TarjanState.setLow (st : TarjanState) (v x : Nat) : TarjanState :=
  { st with lowLinks := st.lowLinks.setIfInBounds v x }

/-- pop the stack down to and including `v`; the component in pop order -/
def popComponent (v : Nat) : List Nat → Array Bool → List Nat → List Nat × List Nat × Array Bool
  | [], on, comp => (comp.reverse, [], on)
  | w :: rest, on, comp =>
    let on := on.setIfInBounds w false
    if w == v then ((w :: comp).reverse, rest, on) else popComponent v rest on (w :: comp)

/-- `strongConnect(v)`; `fuel` bounds the recursion depth (≤ number of nodes) -/
def strongConnect (nbrs : Nat → List Nat) : Nat → Nat → TarjanState → TarjanState
  | 0, _, st => st
  | fuel + 1, v, st =>
    let vi := st.index
    let st : TarjanState :=
      { st with indices := st.indices.setIfInBounds v (some vi),
                lowLinks := st.lowLinks.setIfInBounds v vi,
                index := vi + 1, stack := v :: st.stack, onStack := bitSet st.onStack v }
    let st := (nbrs v).foldl (fun (st : TarjanState) w =>
      match st.indexOf w with
      | none =>
        let st := strongConnect nbrs fuel w st
        if st.low w < st.low v then st.setLow v (st.low w) else st
      | some wi =>
        if bitGet st.onStack w then (if wi < st.low v then st.setLow v wi else st) else st) st
    if st.low v == vi then
      let (comp, stack, on) := popComponent v st.stack st.onStack []
      { st with stack := stack, onStack := on, sccs := comp :: st.sccs }
    else st

/-- all components of the graph on nodes `< n`, started from `roots` in order
    (Go: `for _, root := range …  if !visited { strongConnect(root) }`) -/
def tarjanSCCs (n : Nat) (nbrs : Nat → List Nat) (roots : List Nat) : List (List Nat) :=
  let st := roots.foldl (fun (st : TarjanState) r =>
    match st.indexOf r with
    | some _ => st
    | none => strongConnect nbrs (n + 1) r st) (TarjanState.init n)
  st.sccs.reverse

end Sfw.Canon
