/-
  An executable semantics for a fragment of MiniSSA (what go/ssa builds for functions over
  integers of every width, strings, booleans and read-only `[]int` parameters), and the VIEW of a
  function that the canonical text presents (virtual comparison operators, exchanged successors,
  operands of commutative operations in either order).  CORE ONLY (linked into `sfwmodel`).

  The interpreter is tied to reality by the `ssasem` suite: generated Go functions are compiled and
  EXECUTED natively, their exported SSA is run here on the same argument vectors, and the outcomes
  (results or panic) must agree.  Props/C03Sem.lean proves that the view has the same outcome as the
  function for every argument vector and every fuel - the normalisations the fingerprint applies to
  this fragment never merge two behaviours.

  Type information: bits of `TFlags` beyond the five the canonicaliser reads
      32  unsigned integer      64·k  integer width code k (1: 8, 2: 16, 3: 32, 4: 64 bits)
      512 boolean               1024  slice of int
  Values carry no type; every operation checks that its operand values FIT the static flags of the
  operand slots (a well-typed program never fails that check) and is stuck otherwise.  That makes
  the soundness theorems independent of any typing assumption.
-/
import SfwModel.Model.Canon.Canon
namespace Sfw.Canon.Sem

/-! ### static types -/

structure IntTy where
  bits   : Nat
  signed : Bool
  deriving DecidableEq, Repr, Inhabited

def isUnsignedFlag (t : TFlags) : Bool := (t / 32) % 2 == 1
def widthCode (t : TFlags) : Nat := (t / 64) % 8
def isBoolFlag (t : TFlags) : Bool := (t / 512) % 2 == 1
def isIntSliceFlag (t : TFlags) : Bool := (t / 1024) % 2 == 1

def intTy? (t : TFlags) : Option IntTy :=
  if !t.isInteger then none else
  match widthCode t with
  | 1 => some ⟨8, !isUnsignedFlag t⟩
  | 2 => some ⟨16, !isUnsignedFlag t⟩
  | 3 => some ⟨32, !isUnsignedFlag t⟩
  | 4 => some ⟨64, !isUnsignedFlag t⟩
  | _ => none

/-- reduce an integer to the value range of the type (two's complement wrap-around) -/
def wrap (ty : IntTy) (x : Int) : Int :=
  let m : Int := 2 ^ ty.bits
  let r := x % m
  if ty.signed && r ≥ m / 2 then r - m else r

/-- the unsigned representative (bit pattern) of a value of the type -/
def toBits (ty : IntTy) (x : Int) : Nat := (x % (2 ^ ty.bits : Int)).toNat

/-! ### values -/

/-- floating point values are only compared, never computed with: `nan` is unordered -/
inductive Flt where
  | nan
  | fin (q : Int)
  deriving DecidableEq, Repr, Inhabited

inductive Value where
  | int (v : Int)
  | str (bytes : List Nat)
  | bool (b : Bool)
  | flt (x : Flt)
  /-- a read-only slice of ints -/
  | slice (xs : List Int)
  /-- the address of element `idx` of a read-only slice -/
  | elem (xs : List Int) (idx : Nat)
  deriving DecidableEq, Repr, Inhabited

/-- exactly one class of values fits a given flag word -/
def Value.fits (t : TFlags) : Value → Bool
  | .int _ => t.isInteger && !t.isString && !t.isFloat && !t.isComplex && !isBoolFlag t
  | .str _ => t.isString && !t.isInteger && !t.isFloat && !t.isComplex && !isBoolFlag t
  | .flt _ => t.isFloat && !t.isInteger && !t.isString && !t.isComplex && !isBoolFlag t
  | .bool _ => isBoolFlag t && !t.isInteger && !t.isString && !t.isFloat && !t.isComplex
  | .slice _ =>
    isIntSliceFlag t && !t.isInteger && !t.isString && !t.isFloat && !t.isComplex && !isBoolFlag t
  | .elem _ _ =>
    !t.isInteger && !t.isString && !t.isFloat && !t.isComplex && !isBoolFlag t && !isIntSliceFlag t

/-- result of evaluating one operation -/
inductive Res (α : Type) where
  | ok (a : α)
  | panic
  | stuck
  deriving Repr, Inhabited, DecidableEq

/-! ### comparisons -/

def bytesLt : List Nat → List Nat → Bool
  | [], [] => false
  | [], _ :: _ => true
  | _ :: _, [] => false
  | x :: xs, y :: ys => if x < y then true else if y < x then false else bytesLt xs ys

def bytesLe : List Nat → List Nat → Bool
  | [], _ => true
  | _ :: _, [] => false
  | x :: xs, y :: ys => if x < y then true else if y < x then false else bytesLe xs ys

def isCmpOp (op : String) : Bool :=
  op == "==" || op == "!=" || op == "<" || op == "<=" || op == ">" || op == ">="

/-- a comparison of two values of the same class (`none`: not comparable this way) -/
def evalCmp (op : String) : Value → Value → Option Bool
  | .int a, .int b =>
    if op == "==" then some (a == b) else if op == "!=" then some (a != b)
    else if op == "<" then some (decide (a < b)) else if op == "<=" then some (decide (a ≤ b))
    else if op == ">" then some (decide (b < a)) else if op == ">=" then some (decide (b ≤ a))
    else none
  | .str a, .str b =>
    if op == "==" then some (a == b) else if op == "!=" then some (a != b)
    else if op == "<" then some (bytesLt a b) else if op == "<=" then some (bytesLe a b)
    else if op == ">" then some (bytesLt b a) else if op == ">=" then some (bytesLe b a)
    else none
  | .bool a, .bool b =>
    if op == "==" then some (a == b) else if op == "!=" then some (a != b) else none
  | .flt a, .flt b =>
    match a, b with
    | .fin x, .fin y =>
      if op == "==" then some (x == y) else if op == "!=" then some (x != y)
      else if op == "<" then some (decide (x < y)) else if op == "<=" then some (decide (x ≤ y))
      else if op == ">" then some (decide (y < x)) else if op == ">=" then some (decide (y ≤ x))
      else none
    | _, _ =>
      -- IEEE-754: every ordered comparison with a NaN is false, `!=` is true
      if op == "!=" then some true
      else if isCmpOp op then some false else none
  | _, _ => none

/-! ### integer arithmetic -/

def bitOp (f : Nat → Nat → Nat) (ty : IntTy) (a b : Int) : Int :=
  wrap ty (Int.ofNat (f (toBits ty a) (toBits ty b)))

/-- `a &^ b` on bit patterns of `bits` bits -/
def andNot (bits : Nat) (x y : Nat) : Nat := x &&& ((2 ^ bits - 1) ^^^ y)

/-- arithmetic on two integers of type `ty`; `ySigned`: the right operand's type is signed (shift
    counts) -/
def evalArith (op : String) (ty : IntTy) (a b : Int) : Res Int :=
  if op == "+" then .ok (wrap ty (a + b))
  else if op == "-" then .ok (wrap ty (a - b))
  else if op == "*" then .ok (wrap ty (a * b))
  else if op == "/" then (if b == 0 then .panic else .ok (wrap ty (Int.tdiv a b)))
  else if op == "%" then (if b == 0 then .panic else .ok (wrap ty (Int.tmod a b)))
  else if op == "&" then .ok (bitOp (· &&& ·) ty a b)
  else if op == "|" then .ok (bitOp (· ||| ·) ty a b)
  else if op == "^" then .ok (bitOp (· ^^^ ·) ty a b)
  else if op == "&^" then .ok (bitOp (andNot ty.bits) ty a b)
  else if op == "<<" then
    (if b < 0 then .panic
     else if b ≥ ty.bits then .ok 0
     else .ok (wrap ty (a * 2 ^ b.toNat)))
  else if op == ">>" then
    (if b < 0 then .panic
     else if b ≥ ty.bits then .ok (if a < 0 then -1 else 0)
     else .ok (Int.fdiv a (2 ^ b.toNat)))
  else .stuck

/-- a BinOp with operator `op`, result flags `rt` and operand flags `t0`, `t1` -/
def evalBinOp (op : String) (rt t0 t1 : TFlags) (a b : Value) : Res Value :=
  if !(a.fits t0 && b.fits t1) then .stuck
  else if isCmpOp op then
    match evalCmp op a b with
    | some r => if (Value.bool r).fits rt then .ok (.bool r) else .stuck
    | none => .stuck
  else
    match a, b with
    | .int x, .int y =>
      match intTy? rt with
      | some ty =>
        if !(Value.int 0).fits rt then .stuck else
        (match evalArith op ty x y with
         | .ok v => .ok (.int v)
         | .panic => .panic
         | .stuck => .stuck)
      | none => .stuck
    | .str x, .str y =>
      if op == "+" && (Value.str []).fits rt then .ok (.str (x ++ y)) else .stuck
    | _, _ => .stuck

def evalUnOp (op : String) (rt t0 : TFlags) (a : Value) : Res Value :=
  if !a.fits t0 then .stuck else
  match a with
  | .int x =>
    (match intTy? rt with
     | some ty =>
       if op == "-" then .ok (.int (wrap ty (-x)))
       else if op == "^" then .ok (.int (wrap ty (-x - 1)))
       else .stuck
     | none => .stuck)
  | .bool b => if op == "!" then .ok (.bool !b) else .stuck
  | .elem xs k =>
    -- load through the address of a slice element
    if op == "*" then
      (match xs[k]? with
       | some v => .ok (.int v)
       | none => .stuck)
    else .stuck
  | _ => .stuck

/-! ### operands -/

abbrev Env := Array (Option Value)

def constValue (c : Const) (t : TFlags) : Option Value :=
  match c.kind with
  | .int => if t.isInteger then c.text.toInt?.map .int else none
  | .bool =>
    if !isBoolFlag t then none
    else if c.text == "true" then some (.bool true)
    else if c.text == "false" then some (.bool false) else none
  | .str => if t.isString then some (.str c.bytes) else none
  | .nil => if isIntSliceFlag t then some (.slice []) else none
  | _ => none

def evalOperand (args : List Value) (env : Env) (o : Operand) : Option Value :=
  match o.val with
  | some (.instr id) => env.getD id none
  | some (.param i) => args[i]?
  | some (.const c) => constValue c o.tf
  | _ => none

def Instr.operand? (i : Instr) (k : Nat) : Option Operand := i.ops[k]?

/-! ### one instruction -/

/-- a non-phi, non-terminator instruction: the value it defines (`none` for a DebugRef) -/
def evalInstr (args : List Value) (env : Env) (i : Instr) : Res (Option Value) :=
  let opv := fun (k : Nat) => (i.ops[k]?).bind (evalOperand args env)
  match i.kind with
  | .DebugRef => .ok none
  | .BinOp =>
    (match opv 0, opv 1 with
     | some a, some b =>
       (match evalBinOp i.op i.tf (i.opTf 0) (i.opTf 1) a b with
        | .ok v => .ok (some v)
        | .panic => .panic
        | .stuck => .stuck)
     | _, _ => .stuck)
  | .UnOp =>
    (match opv 0 with
     | some a =>
       if i.b1 then .stuck else
       (match evalUnOp i.op i.tf (i.opTf 0) a with
        | .ok v => .ok (some v)
        | .panic => .panic
        | .stuck => .stuck)
     | none => .stuck)
  | .Convert =>
    -- integer to integer only
    (match opv 0 with
     | some (.int x) =>
       if !(Value.int x).fits (i.opTf 0) then .stuck else
       (match intTy? i.tf with
        | some ty => .ok (some (.int (wrap ty x)))
        | none => .stuck)
     | _ => .stuck)
  | .ChangeType =>
    (match opv 0 with
     | some v => if v.fits (i.opTf 0) && v.fits i.tf then .ok (some v) else .stuck
     | none => .stuck)
  | .Call =>
    -- the builtin `len` of a string or of an int slice
    if i.b1 then .stuck else
    (match i.opVal 0, i.ops.length, opv 1 with
     | some (.builtin name), 2, some (.str bs) =>
       if name == "len" && (Value.str bs).fits (i.opTf 1) then .ok (some (.int bs.length)) else .stuck
     | some (.builtin name), 2, some (.slice xs) =>
       if (name == "len" || name == "cap") && (Value.slice xs).fits (i.opTf 1) then
         .ok (some (.int xs.length)) else .stuck
     | _, _, _ => .stuck)
  | .IndexAddr =>
    (match opv 0, opv 1 with
     | some (.slice xs), some (.int k) =>
       if !((Value.slice xs).fits (i.opTf 0) && (Value.int k).fits (i.opTf 1)) then .stuck
       else if k < 0 || k ≥ xs.length then .panic
       else .ok (some (.elem xs k.toNat))
     | _, _ => .stuck)
  | .Lookup | .Index =>
    -- `s[k]` on a string
    (match opv 0, opv 1 with
     | some (.str bs), some (.int k) =>
       if i.b1 || !((Value.str bs).fits (i.opTf 0) && (Value.int k).fits (i.opTf 1)) then .stuck
       else if k < 0 || k ≥ bs.length then .panic
       else (match bs[k.toNat]? with
             | some b => .ok (some (.int b))
             | none => .stuck)
     | _, _ => .stuck)
  | _ => .stuck

/-! ### control flow -/

inductive Outcome where
  | ret (vs : List Value)
  | panic
  | stuck
  | fuelOut
  deriving Repr, Inhabited, DecidableEq

/-- where a block hands over -/
inductive BlockExit where
  | goto (b : Nat) (env : Env)
  | done (o : Outcome)
  deriving Inhabited

def envSet (env : Env) (id : Nat) (v : Option Value) : Env :=
  match v with
  | some v => env.setIfInBounds id (some v)
  | none => env

/-- the phis of a block read the environment of the predecessor SIMULTANEOUSLY: `old` is read,
    `new` is written.  `k` is the position of the edge among the block's predecessors. -/
def execPhis (args : List Value) (k : Nat) (old : Env) : List Instr → Env → Option Env
  | [], new => some new
  | i :: rest, new =>
    if i.kind != .Phi then execPhis args k old rest new
    else
      match (i.ops[k]?).bind (evalOperand args old) with
      | some v => execPhis args k old rest (new.setIfInBounds i.id (some v))
      | none => none

def execReturn (args : List Value) (env : Env) : List Operand → Option (List Value)
  | [] => some []
  | o :: os =>
    match evalOperand args env o, execReturn args env os with
    | some v, some vs => some (v :: vs)
    | _, _ => none

/-- the non-phi instructions of a block, in order, up to its terminator -/
def execBody (args : List Value) (succs : List Nat) : List Instr → Env → BlockExit
  | [], _ => .done .stuck
  | i :: rest, env =>
    match i.kind with
    | .Phi => execBody args succs rest env
    | .If =>
      (match (i.ops[0]?).bind (evalOperand args env), succs with
       | some (.bool c), [s0, s1] => .goto (if c then s0 else s1) env
       | _, _ => .done .stuck)
    | .Jump =>
      (match succs with
       | [s] => .goto s env
       | _ => .done .stuck)
    | .Return =>
      (match execReturn args env i.ops with
       | some vs => .done (.ret vs)
       | none => .done .stuck)
    | .Panic => .done .panic
    | _ =>
      match evalInstr args env i with
      | .ok v => execBody args succs rest (envSet env i.id v)
      | .panic => .done .panic
      | .stuck => .done .stuck

/-- run from block `b`, entered from `prev` -/
def runFrom (f : Func) (args : List Value) : Nat → Option Nat → Nat → Env → Outcome
  | 0, _, _, _ => .fuelOut
  | fuel + 1, prev, b, env =>
    match f.blocks[b]? with
    | none => .stuck
    | some bl =>
      let env1? : Option Env :=
        match prev with
        | none => some env
        | some p =>
          match indexOf? bl.preds p with
          | some k => execPhis args k env bl.instrs env
          | none => none
      match env1? with
      | none => .stuck
      | some env1 =>
        match execBody args bl.succs bl.instrs env1 with
        | .done o => o
        | .goto nb env2 => runFrom f args fuel (some b) nb env2

/-- the behaviour of a function on an argument vector, with `fuel` block transitions -/
def run (f : Func) (args : List Value) (fuel : Nat) : Outcome :=
  runFrom f args fuel none 0 (Array.replicate f.nInstrs none)

/-! ### the view the canonical text presents -/

/-- which BinOps have their operands exchanged (the text sorts them by their printed form, which
    depends on naming: every choice is covered) -/
abbrev Exchange := Nat → Bool

def viewInstr (vcf : VirtualCF) (exch : Exchange) (i : Instr) : Instr :=
  if i.kind != .BinOp then i else
  match vcf.virtualBinOps.find? (fun e => e.1 == i.id) with
  | some e => { i with op := e.2 }
  | none =>
    if isCommutative i && exch i.id then
      match i.ops with
      | [x, y] => { i with ops := [y, x] }
      | _ => i
    else i

def viewBlock (f : Func) (vcf : VirtualCF) (swapped : List Nat) (exch : Exchange) (b : Block) : Block :=
  { b with succs := virtualSuccessors f swapped b.idx,
           instrs := b.instrs.map (viewInstr vcf exch) }

/-- the function as its canonical text shows it: every comparison selected by
    `computeVirtualControlFlow` carries the replacement operator, the successors of the swapped
    blocks are exchanged, commutative operands are exchanged wherever `exch` says -/
def virtualView (f : Func) (exch : Exchange) : Func :=
  let vcf := computeVirtualControlFlow f
  let swapped := vcf.swappedBlocks.filter (fun b => (f.succs b).length == 2)
  { f with blocks := f.blocks.map (viewBlock f vcf swapped exch),
           instrs := f.instrs.map (viewInstr vcf exch) }

/-! ### well-formedness of an exported function (checked by the driver on every function) -/

/-- every table entry sits at its id; an `If` is the last instruction of its block; block `k` has
    index `k`; every instruction of a block is the entry of the instruction table at its id; every
    use of an instruction value is listed among the referrers of that value -/
def wfCheck (f : Func) : Bool :=
  -- every entry of the instruction table sits at its own id
  (List.range f.instrs.size).all (fun d =>
    match f.instrs[d]? with
    | some i => i.id == d
    | none => false) &&
  -- nothing follows an If inside a block (go/ssa: terminators are last)
  f.blocks.toList.all (fun bl => bl.instrs.dropLast.all (fun i => i.kind != .If)) &&
  (List.range f.blocks.size).all (fun k =>
    match f.blocks[k]? with
    | none => false
    | some bl =>
      bl.idx == k &&
      bl.instrs.all (fun i =>
        i.blk == k && decide (f.instrs[i.id]? = some i) &&
        i.ops.all (fun o =>
          match o.val with
          | some (.instr d) =>
            (match f.instrs[d]? with
             | some t => t.refs.any (fun r => r.1 == i.id && r.2 == i.kind)
             | none => false)
          | _ => true)))

end Sfw.Canon.Sem
