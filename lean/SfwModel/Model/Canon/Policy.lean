/-
  ir/policy.go : LiteralPolicy, DefaultLiteralPolicy, KeepAllLiteralsPolicy, IsConst,
  ShouldAbstract, IsSmallInt, IsComparisonOp.
-/
import SfwModel.Model.Canon.MiniSSA
namespace Sfw.Canon

structure LiteralPolicy where
  abstractControlFlowComparisons : Bool
  keepSmallIntegerIndices        : Bool
  keepReturnStatusValues         : Bool
  keepStringLiterals             : Bool
  smallIntMin                    : Int
  smallIntMax                    : Int
  abstractOtherTypes             : Bool
  deriving Repr, Inhabited

def defaultLiteralPolicy : LiteralPolicy :=
  { abstractControlFlowComparisons := true, keepSmallIntegerIndices := true,
    keepReturnStatusValues := true, keepStringLiterals := false,
    smallIntMin := -16, smallIntMax := 16, abstractOtherTypes := true }

def keepAllLiteralsPolicy : LiteralPolicy :=
  { abstractControlFlowComparisons := false, keepSmallIntegerIndices := true,
    keepReturnStatusValues := true, keepStringLiterals := true,
    smallIntMin := -9223372036854775808, smallIntMax := 9223372036854775807,
    abstractOtherTypes := false }

/-- `constant.Compare(a, token.EQL, b)` for two values of the SAME kind, on the exported
    representation (ExactString is canonical for integers and booleans; the callers only act on
    the answer for integers) -/
def constValueEq (a b : Const) : Bool := a.text == b.text && a.bytes == b.bytes

/-- `IsConst(v, target)` -/
def isConst (v : Option Val) (target : Const) : Bool :=
  match v with
  | some (.const c) =>
    if target.kind == .nil then false
    else if c.kind == .nil then false
    else if c.kind != target.kind then false
    else constValueEq c target
  | _ => false

/-- `IsSmallInt` -/
def LiteralPolicy.isSmallInt (p : LiteralPolicy) (c : Const) : Bool :=
  c.kind == .int &&
  (if c.fits64 then decide (p.smallIntMin ≤ c.i64) && decide (c.i64 ≤ p.smallIntMax)
   else
     -- a constant that does not fit an int64: a range spanning all of int64 means "no limit" (fix
     -- "KeepAllLiteralsPolicy keeps integer constants that do not fit an int64")
     p.smallIntMin == -9223372036854775808 && p.smallIntMax == 9223372036854775807)

/-- `IsComparisonOp` -/
def isComparisonOp (op : String) : Bool :=
  op == "==" || op == "!=" || op == "<" || op == "<=" || op == ">" || op == ">="

/-- the answer of the index/bound/size cases: `some b` = return b, `none` = fall through -/
def LiteralPolicy.indexCase (p : LiteralPolicy) (hit isInteger isSmall : Bool) : Option Bool :=
  if hit && isInteger then
    (if p.keepSmallIntegerIndices && isSmall then some false else some true)
  else none

/-- the `switch usageContext.(type)` of ShouldAbstract: `some b` = return b, `none` = fall
    through to the context-free rule -/
def LiteralPolicy.contextRule (p : LiteralPolicy) (c : Const) (ctx : Instr)
    (isInteger isSmall : Bool) : Option Bool :=
  match ctx.kind with
  | .Return =>
    if isInteger then
      (if p.keepReturnStatusValues && isSmall then some false else some true)
    else none
  | .BinOp =>
    if isComparisonOp ctx.op && ctx.refs.any (fun r => r.2 == .If)
        && p.abstractControlFlowComparisons then
      (if isInteger && p.keepSmallIntegerIndices && isSmall then some false else some true)
    else none
  | .IndexAddr | .Index | .Lookup =>
    p.indexCase (isConst (ctx.opVal 1) c) isInteger isSmall
  | .Slice =>
    p.indexCase (isConst (ctx.opVal 1) c || isConst (ctx.opVal 2) c || isConst (ctx.opVal 3) c)
      isInteger isSmall
  | .MakeSlice =>
    p.indexCase (isConst (ctx.opVal 0) c || isConst (ctx.opVal 1) c) isInteger isSmall
  | .MakeChan | .MakeMap =>
    p.indexCase (isConst (ctx.opVal 0) c) isInteger isSmall
  | .Alloc =>
    if isInteger then
      (if p.keepSmallIntegerIndices && isSmall then some false else some true)
    else none
  | _ => none

/-- `ShouldAbstract(c, usageContext)` (the context is never nil in the canonicaliser) -/
def LiteralPolicy.shouldAbstract (p : LiteralPolicy) (c : Const) (ctx : Instr) : Bool :=
  if c.kind == .nil then false
  else if c.kind == .str then !p.keepStringLiterals
  else
    let isInteger := c.kind == .int
    let isSmall := isInteger && p.isSmallInt c
    match p.contextRule c ctx isInteger isSmall with
    | some b => b
    | none => if isInteger then !isSmall else p.abstractOtherTypes

end Sfw.Canon
