/-
  ir/canonicalizer.go : CanonicalizeFunction and everything it calls, plus the entry point
  `canonicalIR` = GenerateFingerprint(...).CanonicalIR of diff/fingerprinter.go.

  State is threaded explicitly:
    * `Regs`  — registerMap + regCounter (lazy `v%d` naming, the only state that changes while
                text is produced),
    * `Canon` — everything that is fixed once the analysis passes are done.
-/
import SfwModel.Model.Canon.ScevAnalysis
import SfwModel.Model.Canon.Policy
import SfwModel.Model.Canon.VirtualCF
import SfwModel.Model.Canon.Quote
namespace Sfw.Canon

/-! ### registerMap / normalizeValue -/

/-- `registerMap` : instruction values by id, every other value in an association list -/
structure Regs where
  instrs  : Array (Option String)
  others  : List (Val × String)
  counter : Nat
  deriving Repr, Inhabited

def Regs.init (nInstrs : Nat) : Regs :=
  { instrs := Array.replicate nInstrs none, others := [], counter := 0 }

def Regs.find? (r : Regs) : Val → Option String
  | .instr id => r.instrs.getD id none
  | v =>
    match r.others.find? (fun e => e.1 == v) with
    | some e => some e.2
    | none => none

def Regs.insert (r : Regs) (v : Val) (name : String) : Regs :=
  match v with
  | .instr id => { r with instrs := r.instrs.setIfInBounds id (some name) }
  | _ => { r with others := (v, name) :: r.others }

/-- `normalizeValue(v, preferred)` -/
def normalizeValueAs (v : Val) (preferred : String) (r : Regs) : String × Regs :=
  match r.find? v with
  | some n => (n, r)
  | none => (preferred, r.insert v preferred)

/-- `normalizeValue(v)`: the first sighting of a value allocates the next `v%d` -/
def normalizeValue (v : Val) (r : Regs) : String × Regs :=
  match r.find? v with
  | some n => (n, r)
  | none =>
    let name := "v" ++ toString r.counter
    (name, { r.insert v name with counter := r.counter + 1 })

/-! ### the canonicaliser's fixed context -/

structure Canon where
  policy  : LiteralPolicy
  fn      : Func
  /-- `loopInfo` after AnalyzeLoops and NormalizeInductionVariables -/
  loops   : LoopInfo
  /-- `virtualBlocks`: the swapped blocks -/
  swapped : List Nat
  /-- `virtualBinOps` -/
  virtualBinOps : List (Nat × String)
  /-- `virtualInstrs`: instruction id ↦ block it is moved to -/
  virtualInstrs : List (Nat × Nat)
  /-- `hoistedInstrs` -/
  hoisted : List Nat
  /-- `VirtualizedInstrs` -/
  virtualized : List Nat
  /-- `virtualSubstitutions`: only header phis of basic induction variables are ever entered, and
      they are always mapped to an SCEVAddRec (foldSCEV never builds one for a BinOp) -/
  subs    : List (Nat × SCEV)
  /-- `blockMap`: block index ↦ n of its canonical name `b<n>` -/
  blockPos : Array (Option Nat)
  /-- `effectiveInstrs` -/
  effective : Array (List Instr)
  deriving Inhabited

def Canon.sub? (c : Canon) : Val → Option SCEV
  | .instr id =>
    match c.subs.find? (fun e => e.1 == id) with
    | some e => some e.2
    | none => none
  | _ => none

/-- `c.blockMap[b]` ("" when absent, as a Go map lookup) -/
def Canon.blockName (c : Canon) (b : Nat) : String :=
  match c.blockPos.getD b none with
  | some n => "b" ++ toString n
  | none => ""

/-- `getVirtualSuccessors` -/
def virtualSuccessors (f : Func) (swapped : List Nat) (b : Nat) : List Nat :=
  match f.succs b with
  | [s0, s1] => if swapped.contains b then [s1, s0] else [s0, s1]
  | ss => ss

/-- `getVirtualBinOpToken` -/
def Canon.virtualBinOpToken (c : Canon) (i : Instr) : String :=
  match c.virtualBinOps.find? (fun e => e.1 == i.id) with
  | some e => e.2
  | none => i.op

/-! ### renamerFunc / NormalizeOperand -/

def MaxRenamerDepth : Nat := 20

/-- the closure returned by `renamerFunc`.  `fuel = MaxRenamerDepth - depth`; `stack` is the
    recursion stack used for the cycle check.  A value with a substitution is printed as its
    SCEV, recursively through the same renamer; any other value gets its register name. -/
def renamer (lbl : Nat → String) (subs : Val → Option SCEV) : Nat → List Val → Val → Regs → String × Regs
  | 0, _, _, r => ("<depth-limit>", r)
  | fuel + 1, stack, v, r =>
    if stack.contains v then ("<cycle>", r)
    else
      match subs v with
      | some scev => scev.render lbl (renamer lbl subs fuel (v :: stack)) r
      | none => normalizeValue v r

/-- `scev.StringWithRenamer(c.renamerFunc())`; every loop carries the canonical name of its header
    block as label (`labelLoops`, run right after the block names are assigned) -/
def Canon.renderSCEV (c : Canon) (s : SCEV) (r : Regs) : String × Regs :=
  s.render c.blockName (renamer c.blockName c.sub? MaxRenamerDepth []) r

/-- `Canonicalizer.funcRefName`: the function under analysis is `<self>`, members of its own closure
    tree are named relative to the outermost enclosing function, everything else by its qualified
    name (package path and receiver included) -/
def funcRefName (qualified : String) : FuncRel → String
  | .self => "<self>"
  | .localTo suffix => "<local" ++ suffix ++ ">"
  | .external => qualified

/-- the `*ssa.Const` case of NormalizeOperand -/
def Canon.renderConst (c : Canon) (k : Const) (context : Instr) : String :=
  if c.policy.shouldAbstract k context then "<" ++ k.typ ++ "_literal>"
  else match k.kind with
    | .nil => "const(" ++ k.typ ++ ":nil)"
    | .str => "const(" ++ goQuote k.bytes ++ ")"
    | _ => "const(" ++ k.text ++ ")"

/-- `NormalizeOperand(v, context)` -/
def Canon.normalizeOperand (c : Canon) (v : Option Val) (context : Instr) (r : Regs) :
    String × Regs :=
  match v with
  | none => ("<nil>", r)
  | some v =>
    match c.sub? v with
    | some scev => c.renderSCEV scev r
    | none =>
      match v with
      | .const k => (c.renderConst k context, r)
      | .global pkg name typ => ("<global:" ++ pkg ++ "." ++ name ++ ":" ++ typ ++ ">", r)
      | .builtin name => ("<builtin:" ++ name ++ ">", r)
      | .func qualified sig rel =>
        match r.find? v with
        | some n => (n, r)
        | none => ("<func_ref:" ++ funcRefName qualified rel ++ ":" ++ sig ++ ">", r)
      | _ => normalizeValue v r

/-- NormalizeOperand over a list of operands, left to right -/
def Canon.normalizeOperands (c : Canon) (context : Instr) :
    List (Option Val) → Regs → List String × Regs
  | [], r => ([], r)
  | v :: vs, r =>
    let (s, r) := c.normalizeOperand v context r
    let (ss, r) := c.normalizeOperands context vs r
    (s :: ss, r)

/-! ### hoistInvariantCalls -/

/-- `computeSCCs(fn)` -/
def computeSCCs (f : Func) : List (List Nat) :=
  tarjanSCCs f.nBlocks f.succs (List.range f.nBlocks)

/-- `isPureBuiltin(call)` -/
def isPureBuiltin (call : Instr) : Bool :=
  if call.b1 then false else
  match call.opVal 0 with
  | some (.builtin name) =>
    let allowed := name == "len" || name == "cap" || name == "complex" || name == "real"
      || name == "imag" || name == "min" || name == "max"
    if !allowed then false
    else if name == "len" || name == "cap" then
      -- impure on maps and channels
      (match call.ops[1]? with
       | some o => !o.tf.isMapOrChan
       | none => true)
    else true
  | _ => false

/-- `areArgsInvariantLoop(call, loopBlocks)` -/
def areArgsInvariantLoop (f : Func) (hoisted : List Nat) (loopBlocks : Array Bool) (call : Instr) :
    Bool :=
  (call.ops.drop 1).all (fun o =>
    match o.val with
    | some (.const _) | some (.global _ _ _) | some (.param _) | some (.freeVar _) => true
    | some (.instr id) =>
      if hoisted.contains id then true
      else match f.instr? id with
        | some i => !bitGet loopBlocks i.blk
        | none => false
    | _ => false)

/-- the unique block outside the component with an edge into it (or the entry block when there
    is no such edge and the entry is outside); `none` when there are several -/
def hoistTarget (f : Func) (scc : List Nat) (loopBlocks : Array Bool) : Option Nat :=
  let pre := scc.flatMap (fun b => (f.preds b).filter (fun p => !bitGet loopBlocks p))
  let pre := if pre.isEmpty && f.nBlocks > 0 && !bitGet loopBlocks 0 then [0] else pre
  match pre.eraseDups with
  | [t] => some t
  | _ => none

structure HoistState where
  hoisted       : List Nat
  virtualInstrs : List (Nat × Nat)
  deriving Repr, Inhabited

/-- the part of `hoistInvariantCalls` that handles one component -/
def hoistSCC (f : Func) (st : HoistState) (scc : List Nat) : HoistState :=
  let trivial := match scc with
    | [b] => !(f.succs b).contains b
    | _ => false
  if trivial then st else
  let loopBlocks := scc.foldl bitSet (Array.replicate f.nBlocks false)
  match hoistTarget f scc loopBlocks with
  | none => st
  | some target =>
    (scc.flatMap f.blockInstrs).foldl (fun (st : HoistState) i =>
      if i.kind == .Call && isPureBuiltin i && areArgsInvariantLoop f st.hoisted loopBlocks i then
        { hoisted := i.id :: st.hoisted,
          virtualInstrs := (i.id, target) :: st.virtualInstrs.filter (fun e => e.1 != i.id) }
      else st) st

/-- `hoistInvariantCalls(fn)` -/
def hoistInvariantCalls (f : Func) : HoistState :=
  (computeSCCs f).foldl (hoistSCC f) { hoisted := [], virtualInstrs := [] }

/-! ### NormalizeInductionVariables -/

def MaxLoopAnalysisDepth : Nat := 64

structure IVState where
  loops       : LoopInfo
  virtualized : List Nat
  subs        : List (Nat × SCEV)
  deriving Inhabited

/-- the BinOp sweep of normalizeInductionVariablesRecursive for one loop.  `foldSCEV` never
    yields an SCEVAddRec, so the sweep only fills the loop's SCEV cache (which nothing reads
    afterwards).  Go ranges over the `l.Blocks` MAP; the model uses ascending block order. -/
def sweepBinOps (f : Func) (virtualized : List Nat) (l : Loop) : Loop :=
  (loopInstrs f l).foldl (fun (l : Loop) i =>
    if i.kind == .BinOp && !virtualized.contains i.id then (toSCEV f l (.instr i.id)).2 else l) l

/-- `normalizeInductionVariablesRecursive(loops, depth)`, fuel = MaxLoopAnalysisDepth - depth -/
def normalizeIVRec (f : Func) : Nat → List Nat → IVState → IVState
  | 0, _, st => st
  | fuel + 1, loops, st =>
    loops.foldl (fun (st : IVState) li =>
      match st.loops.all[li]? with
      | none => st
      | some l0 =>
        let st := normalizeIVRec f fuel l0.children st
        match st.loops.all[li]? with
        | none => st
        | some l =>
          -- basic induction variables: the header phi is replaced by {start, +, step}
          let basics := l.inductions.filter (fun e => e.2.type == .basic)
          let virtualized := st.virtualized ++ basics.map (·.1)
          let subs := st.subs ++ basics.map (fun e => (e.1, SCEV.addRec e.2.start e.2.step l.header
            (match f.instr? e.1 with | some phi => phi.typ | none => "")))
          let l := sweepBinOps f virtualized l
          { loops := { st.loops with all := st.loops.all.setIfInBounds li l },
            virtualized := virtualized, subs := subs }) st

/-! ### boundSubstitutionSize -/

structure SizeState where
  /-- memo: substituted value ↦ size of the text it expands to -/
  sizes       : List (Nat × Nat)
  subs        : List (Nat × SCEV)
  virtualized : List Nat
  deriving Inhabited

/-- `scevSize` / `valueSize` of boundSubstitutionSize in one function (an `SCEVUnknown` leaf whose
    value is substituted counts as its own expansion).  `visiting` is the cycle guard; a value whose
    expansion exceeds `MaxSCEVNodes` loses its substitution and counts as 1 from then on. -/
def subSize : Nat → List Nat → SCEV → SizeState → Nat × SizeState
  | 0, _, _, st => (1, st)
  | fuel + 1, visiting, s, st =>
    match s with
    | .addRec a b _ _ =>
      let (x, st) := subSize fuel visiting a st
      let (y, st) := subSize fuel visiting b st
      (1 + (x + y), st)
    | .generic _ a b =>
      let (x, st) := subSize fuel visiting a st
      let (y, st) := subSize fuel visiting b st
      (1 + (x + y), st)
    | .comm _ a b =>
      let (x, st) := subSize fuel visiting a st
      let (y, st) := subSize fuel visiting b st
      (1 + (x + y), st)
    | .max a b =>
      let (x, st) := subSize fuel visiting a st
      let (y, st) := subSize fuel visiting b st
      (1 + (x + y), st)
    | .unknown (some (.instr id)) _ =>
      match st.subs.find? (fun e => e.1 == id) with
      | none => (1, st)
      | some e =>
        match st.sizes.find? (fun m => m.1 == id) with
        | some m => (m.2, st)
        | none =>
          if visiting.contains id then (1, st) else
          let (n, st) := subSize fuel (id :: visiting) e.2 st
          if n > MaxSCEVNodes then
            (1, { sizes := (id, 1) :: st.sizes, subs := st.subs.filter (fun e => e.1 != id),
                  virtualized := st.virtualized.filter (· != id) })
          else (n, { st with sizes := (id, n) :: st.sizes })
    | _ => (1, st)

/-- the walk of boundSubstitutionSize: loops in forest order, header phis in block order -/
def boundWalk (f : Func) (info : LoopInfo) (fuelSize : Nat) : Nat → List Nat → SizeState → SizeState
  | 0, _, st => st
  | fuel + 1, loops, st =>
    loops.foldl (fun (st : SizeState) li =>
      match info.all[li]? with
      | none => st
      | some l =>
        let st := ((f.blockInstrs l.header).filter (·.kind == .Phi)).foldl (fun (st : SizeState) phi =>
          (subSize fuelSize [] (.unknown (some (.instr phi.id)) false) st).2) st
        boundWalk f info fuelSize fuel l.children st) st

/-- `boundSubstitutionSize()` (fix "bound the text a substituted induction variable expands to") -/
def boundSubstitutionSize (f : Func) (ivs : IVState) : IVState :=
  let st0 : SizeState := { sizes := [], subs := ivs.subs, virtualized := ivs.virtualized }
  let st := boundWalk f ivs.loops (300 * (ivs.subs.length + 2)) MaxLoopAnalysisDepth ivs.loops.roots st0
  { ivs with subs := st.subs, virtualized := st.virtualized }

/-- `NormalizeInductionVariables()` -/
def normalizeInductionVariables (f : Func) (info : LoopInfo) : IVState :=
  boundSubstitutionSize f
    (normalizeIVRec f MaxLoopAnalysisDepth info.roots { loops := info, virtualized := [], subs := [] })

/-! ### deterministicTraversal -/

def pad (width : Nat) (n : Nat) : String :=
  let s := toString n
  String.ofList (List.replicate (width - s.length) '0') ++ s

/-- `blockSortKey(b)`.  Go's key for an empty block is the single byte 0xFF (not valid UTF-8),
    which sorts after every other key (they all start with '*'); the model uses U+10FFFF, which
    has the same property. -/
def blockSortKey (f : Func) (b : Nat) : String :=
  match f.blockInstrs b with
  | [] => String.singleton (Char.ofNat 0x10FFFF)
  | first :: rest =>
    let instrs := first :: rest
    String.intercalate "|"
      ([first.kind.goType, pad 3 instrs.length] ++ (instrs.take 3).map (·.kind.goType) ++ [pad 5 b])

/-- successors in the order in which the traversal will visit them -/
def traversalSuccs (f : Func) (swapped : List Nat) (b : Nat) : List Nat :=
  let succs := virtualSuccessors f swapped b
  if succs.length > 2 then
    stableSortBy (fun x y => decide (x.1 < y.1)) (succs.map (fun s => (blockSortKey f s, s)))
      |>.map (·.2)
  else succs

/-- the explicit-stack depth-first walk (head of the list = top of Go's stack) -/
def traversalLoop (f : Func) (swapped : List Nat) :
    Nat → List Nat → Array Bool → List Nat → List Nat
  | 0, _, _, acc => acc.reverse
  | _ + 1, [], _, acc => acc.reverse
  | fuel + 1, b :: stack, visited, acc =>
    if bitGet visited b then traversalLoop f swapped fuel stack visited acc
    else traversalLoop f swapped fuel (traversalSuccs f swapped b ++ stack) (bitSet visited b) (b :: acc)

/-- `deterministicTraversal(fn)` -/
def deterministicTraversal (f : Func) (swapped : List Nat) : List Nat :=
  if f.nBlocks == 0 then []
  else traversalLoop f swapped (f.nEdges + 2) [0] (Array.replicate f.nBlocks false) []

/-- reachable blocks in traversal order, then the unreachable ones by index -/
def sortedBlocks (f : Func) (swapped : List Nat) : List Nat :=
  let reach := deterministicTraversal f swapped
  reach ++ (List.range f.nBlocks).filter (fun b => !reach.contains b)

def mkBlockPos (n : Nat) (sorted : List Nat) : Array (Option Nat) :=
  (sorted.zipIdx).foldl (fun a e => a.setIfInBounds e.1 (some e.2)) (Array.replicate n none)

/-! ### reconstructBlockInstructions -/

def getVirtualBlock (virtualInstrs : List (Nat × Nat)) (i : Instr) : Nat :=
  match virtualInstrs.find? (fun e => e.1 == i.id) with
  | some e => e.2
  | none => i.blk

inductive Slot where
  | phi | head | body | tail | term
  deriving DecidableEq, Repr

/-- where reconstructBlockInstructions files an instruction: (block, slot).
    (`sunkInstrs` is never populated, so `head` stays empty.) -/
def placeInstr (virtualInstrs : List (Nat × Nat)) (hoisted : List Nat) (i : Instr) : Nat × Slot :=
  let target := getVirtualBlock virtualInstrs i
  if i.isTerminator && target == i.blk then (i.blk, .term)
  else if i.kind == .Phi && target == i.blk then (i.blk, .phi)
  else if hoisted.contains i.id || target != i.blk then (target, .tail)
  else (target, .body)

/-- `reconstructBlockInstructions(sortedBlocks)`: the blocks are walked in CANONICAL order, so
    instructions moved into another block (hoisted calls) are appended in an order that does not
    depend on go/ssa's block indices -/
def reconstructBlockInstructions (f : Func) (sorted : List Nat) (virtualized hoisted : List Nat)
    (virtualInstrs : List (Nat × Nat)) : Array (List Instr) :=
  let inOrder := sorted.flatMap (fun b => f.instrs.toList.filter (fun i => i.blk == b))
  let placed := (inOrder.filter (fun i => !virtualized.contains i.id)).map
    (fun i => (placeInstr virtualInstrs hoisted i, i))
  let pick := fun (b : Nat) (s : Slot) =>
    placed.filterMap (fun e => if e.1.1 == b && e.1.2 == s then some e.2 else none)
  (Array.range f.nBlocks).map (fun b =>
    pick b .phi ++ pick b .head ++ pick b .body ++ pick b .tail ++
      -- `terminators[b] = instr`: the last one wins
      (match (pick b .term).getLast? with
       | some t => [t]
       | none => []))

/-! ### rendering of instructions -/

/-- `isCommutative(instr)` -/
def isCommutative (i : Instr) : Bool :=
  if i.op == "+" then
    let t := i.opTf 0
    t.isInteger || t.isFloat || t.isComplex
  else i.op == "*" || i.op == "==" || i.op == "!=" || i.op == "&" || i.op == "|" || i.op == "^"

/-- the text of a BinOp: the operands of a commutative operation are printed in string order -/
def binOpText (comm : Bool) (op x y : String) : String :=
  if comm && decide (y < x) then "BinOp " ++ op ++ ", " ++ y ++ ", " ++ x
  else "BinOp " ++ op ++ ", " ++ x ++ ", " ++ y

/-- `writeCallCommon` (operand 0 is the callee / receiver, the rest are the arguments) -/
def Canon.writeCallCommon (c : Canon) (i : Instr) (r : Regs) : String × Regs :=
  let (callee, r) := c.normalizeOperand (i.opVal 0) i r
  let (args, r) := c.normalizeOperands i ((i.ops.drop 1).map (·.val)) r
  let head := if i.b1 then "Invoke " ++ callee ++ "." ++ i.s1 else callee
  (head ++ "(" ++ String.intercalate ", " args ++ ")", r)

structure PhiEdge where
  predID    : String
  predIndex : Int
  value     : String
  deriving Repr

/-- the numeric part of `b<n>` (`-1` when it does not parse) -/
def predIndexOf (predID : String) : Int :=
  match predID.toList with
  | 'b' :: d :: ds =>
    match (String.ofList (d :: ds)).toInt? with
    | some n => n
    | none => -1
  | _ => -1

/-- `writePhi` (`virtualPhiConstants` is never populated): the edges are sorted by canonical
    predecessor index FIRST and the operands are normalized (hence lazily named) in that order -/
def Canon.writePhi (c : Canon) (i : Instr) (r : Regs) : String × Regs :=
  let preds := c.fn.preds i.blk
  let rec edges : List Operand → List Nat → List (String × Int × Option Val)
    | [], _ => []
    | _ :: _, [] => []
    | e :: es, p :: ps =>
      let predID := c.blockName p
      let predID := if predID.length < 2 then "b" ++ toString p else predID
      (predID, predIndexOf predID, e.val) :: edges es ps
  let es := edges i.ops preds
  let sorted := stableSortBy (fun (a b : String × Int × Option Val) =>
    if a.2.1 != -1 && b.2.1 != -1 then decide (a.2.1 < b.2.1)
    else decide (a.1 < b.1)) es
  let rec render : List (String × Int × Option Val) → Regs → String × Regs
    | [], r => ("", r)
    | e :: rest, r =>
      let (v, r) := c.normalizeOperand e.2.2 i r
      let (s, r) := render rest r
      (" [" ++ e.1 ++ ": " ++ v ++ "]" ++ s, r)
  let (body, r) := render sorted r
  ("Phi" ++ body, r)

structure SelectState where
  dir         : String
  chanRepr    : String
  sendValRepr : String
  sortKey     : String
  deriving Repr

/-- `selectStates`: the cases of a select in canonical order, each with its index in the original
    `States` slice (`none` = the implicit default).  Operands are (Chan, Send) pairs, `s1` the
    comma-separated directions; the select itself is the usage context of its operands. -/
def Canon.selectStates (c : Canon) (i : Instr) (r : Regs) : List (Option Nat × SelectState) × Regs :=
  let rec states : Nat → List String → List Operand → Regs → List (Option Nat × SelectState) × Regs
    | k, d :: ds, ch :: snd :: ops, r =>
      let dir := if d == "s" then "->" else if d == "r" then "<-" else "?"
      let (chanRepr, r) :=
        match ch.val with
        | none => ("<nil_chan>", r)
        | some v => c.normalizeOperand (some v) i r
      let (sendRepr, r) :=
        match snd.val with
        | none => ("", r)
        | some v => c.normalizeOperand (some v) i r
      let key := dir ++ chanRepr ++ (if sendRepr != "" then "<-" ++ sendRepr else "")
      let (rest, r) := states (k + 1) ds ops r
      let st : SelectState := { dir := dir, chanRepr := chanRepr, sendValRepr := sendRepr, sortKey := key }
      ((some k, st) :: rest, r)
    | _, _, _, r => ([], r)
  let (ss, r) := states 0 (i.s1.splitOn ",") i.ops r
  let dfltState : SelectState :=
    { dir := "<-", chanRepr := "<default>", sendValRepr := "",
      sortKey := String.singleton (Char.ofNat 0) ++ "<default>" }
  let dflt : List (Option Nat × SelectState) := if i.b1 then [] else [(none, dfltState)]
  (stableSortBy (fun (a b : Option Nat × SelectState) => decide (a.2.sortKey < b.2.sortKey)) (dflt ++ ss), r)

/-- `writeSelect` -/
def Canon.writeSelect (c : Canon) (i : Instr) (r : Regs) : String × Regs :=
  let (sorted, r) := c.selectStates i r
  let body := sorted.map (fun e =>
    let s := e.2
    " (" ++ s.dir ++ " " ++ s.chanRepr ++
      (if s.sendValRepr != "" then " <- " ++ s.sendValRepr else "") ++ ")")
  ("Select" ++ (if i.b1 then " [blocking]" else " [non-blocking]") ++ String.join body, r)

/-- position of `x` in `l` -/
def indexOf? (l : List Nat) (x : Nat) : Option Nat :=
  let rec go : List Nat → Nat → Option Nat
    | [], _ => none
    | y :: ys, k => if y == x then some k else go ys (k + 1)
  go l 0

/-- `canonicalSelectCase`: original case index ↦ position among the real cases in canonical order -/
def Canon.canonicalSelectCase (c : Canon) (sel : Instr) (orig : Nat) (r : Regs) : Option Nat × Regs :=
  let (sorted, r) := c.selectStates sel r
  (indexOf? (sorted.filterMap (·.1)) orig, r)

/-- `canonicalSelectRecv`: the k-th receive case in original order ↦ its position among the receive
    cases in canonical order -/
def Canon.canonicalSelectRecv (c : Canon) (sel : Instr) (k : Nat) (r : Regs) : Option Nat × Regs :=
  let dirs := sel.s1.splitOn ","
  let recvOrig := (dirs.zipIdx.filter (fun e => e.1 == "r")).map (·.2)
  match recvOrig[k]? with
  | none => (none, r)
  | some orig =>
    let (sorted, r) := c.selectStates sel r
    (indexOf? ((sorted.filter (fun e => e.1.isSome && e.2.dir == "<-")).filterMap (·.1)) orig, r)

/-- `selectCaseOperand(v, other)`: `v` an integer constant compared with the chosen-case index
    (`Extract #0`) of a select -/
def Canon.selectCaseOperand (c : Canon) (v other : Option Val) (r : Regs) : Option String × Regs :=
  match v, other with
  | some (.const k), some (.instr eid) =>
    match c.fn.instr? eid with
    | some ex =>
      if ex.kind == .Extract && ex.n1 == 0 && k.kind == .int then
        match (ex.opVal 0) with
        | some (.instr sid) =>
          match c.fn.instr? sid with
          | some sel =>
            if sel.kind == .Select && k.fits64 && 0 ≤ k.i64 && k.i64 < ((sel.s1.splitOn ",").length : Int)
                && sel.ops.length ≥ 2 then
              match c.canonicalSelectCase sel k.i64.toNat r with
              | (some pos, r) => (some ("<select_case:" ++ toString pos ++ ">"), r)
              | (none, r) => (none, r)
            else (none, r)
          | none => (none, r)
        | _ => (none, r)
      else (none, r)
    | none => (none, r)
  | _, _ => (none, r)

/-- the `*ssa.Alloc` case: `ssa.NewConst(constant.MakeInt64(length), int)` is shown to the
    policy with the Alloc as usage context -/
def Canon.writeAlloc (c : Canon) (i : Instr) : String :=
  let lenConst : Const :=
    { kind := .int, text := toString i.n1, bytes := [], typ := "int", fits64 := true,
      i64 := i.n1, cid := .site i.id 0 }
  if i.b1 && i.n1 ≥ 0 && c.policy.shouldAbstract lenConst i then
    "Alloca [<len_literal>]" ++ i.s2
  else "Alloca " ++ i.s1

/-- the `switch` of processInstruction: the text after `vN = `; `none` for a DebugRef -/
def Canon.instrBody (c : Canon) (i : Instr) (r : Regs) : Option String × Regs :=
  let no := fun (k : Nat) (r : Regs) => c.normalizeOperand (i.opVal k) i r
  -- "<Name> <type>, <operand 0>"
  let conv := fun (name : String) (r : Regs) =>
    let (x, r) := no 0 r
    (some (name ++ " " ++ i.typ ++ ", " ++ x), r)
  match i.kind with
  | .Call => let (s, r) := c.writeCallCommon i r; (some ("Call " ++ s), r)
  | .Go => let (s, r) := c.writeCallCommon i r; (some ("Go " ++ s), r)
  | .Defer => let (s, r) := c.writeCallCommon i r; (some ("Defer " ++ s), r)
  | .BinOp =>
    let (x, r) := no 0 r
    let (y, r) := no 1 r
    -- `chosen == k` on a select: k is printed as a position in the canonical case order
    let (x, y, r) :=
      if i.op == "==" || i.op == "!=" then
        match c.selectCaseOperand (i.opVal 1) (i.opVal 0) r with
        | (some s, r) => (x, s, r)
        | (none, r) =>
          match c.selectCaseOperand (i.opVal 0) (i.opVal 1) r with
          | (some s, r) => (s, y, r)
          | (none, r) => (x, y, r)
      else (x, y, r)
    let op := c.virtualBinOpToken i
    (some (binOpText (isCommutative i) op x y), r)
  | .UnOp =>
    let (x, r) := no 0 r
    (some ("UnOp " ++ i.op ++ ", " ++ x ++ (if i.b1 then ", CommaOk" else "")), r)
  | .Phi => let (s, r) := c.writePhi i r; (some s, r)
  | .Alloc => (some (c.writeAlloc i), r)
  | .Store =>
    let (a, r) := no 0 r
    let (v, r) := no 1 r
    (some ("Store " ++ a ++ ", " ++ v), r)
  | .If =>
    let succs := virtualSuccessors c.fn c.swapped i.blk
    let (cond, r) := no 0 r
    let name := fun (k : Nat) => match succs[k]? with
      | some b => c.blockName b
      | none => ""
    (some ("If " ++ cond ++ ", " ++ name 0 ++ ", " ++ name 1), r)
  | .Jump =>
    match c.fn.succs i.blk with
    | s :: _ => (some ("Jump " ++ c.blockName s), r)
    | [] => (some "Jump <invalid>", r)
  | .Return =>
    let (rs, r) := c.normalizeOperands i (i.ops.map (·.val)) r
    (some ("Return" ++ String.intercalate "," (rs.map (" " ++ ·))), r)
  | .IndexAddr =>
    let (x, r) := no 0 r
    let (y, r) := no 1 r
    (some ("IndexAddr " ++ x ++ ", " ++ y), r)
  | .Index =>
    let (x, r) := no 0 r
    let (y, r) := no 1 r
    (some ("Index " ++ x ++ ", " ++ y), r)
  | .Select => let (s, r) := c.writeSelect i r; (some s, r)
  | .Range => let (x, r) := no 0 r; (some ("Range " ++ x), r)
  | .Next => let (x, r) := no 0 r; (some ("Next " ++ x), r)
  | .Extract =>
    -- #2.. of a select are the received values in ORIGINAL case order: print the canonical position
    let (index, r) : Int × Regs :=
      match i.opVal 0 with
      | some (.instr sid) =>
        match c.fn.instr? sid with
        | some sel =>
          if sel.kind == .Select && i.n1 ≥ 2 then
            match c.canonicalSelectRecv sel (i.n1 - 2).toNat r with
            | (some pos, r) => (2 + (pos : Int), r)
            | (none, r) => (i.n1, r)
          else (i.n1, r)
        | none => (i.n1, r)
      | _ => (i.n1, r)
    let (x, r) := no 0 r
    (some ("Extract " ++ x ++ ", " ++ toString index), r)
  | .Slice =>
    let (x, r) := no 0 r
    let opt := fun (label : String) (k : Nat) (r : Regs) =>
      match i.opVal k with
      | none => ("", r)
      | some v => let (s, r) := c.normalizeOperand (some v) i r; (", " ++ label ++ ":" ++ s, r)
    let (lo, r) := opt "Low" 1 r
    let (hi, r) := opt "High" 2 r
    let (mx, r) := opt "Max" 3 r
    (some ("Slice " ++ x ++ lo ++ hi ++ mx), r)
  | .MakeSlice =>
    let (l, r) := no 0 r
    let (cp, r) := no 1 r
    (some ("MakeSlice " ++ i.typ ++ ", Len:" ++ l ++ ", Cap:" ++ cp), r)
  | .MakeMap =>
    match i.opVal 0 with
    | none => (some ("MakeMap " ++ i.typ), r)
    | some v =>
      let (s, r) := c.normalizeOperand (some v) i r
      (some ("MakeMap " ++ i.typ ++ ", Reserve:" ++ s), r)
  | .MapUpdate =>
    let (m, r) := no 0 r
    let (k, r) := no 1 r
    let (v, r) := no 2 r
    (some ("MapUpdate " ++ m ++ ", Key:" ++ k ++ ", Val:" ++ v), r)
  | .Lookup =>
    let (x, r) := no 0 r
    let (k, r) := no 1 r
    (some ("Lookup " ++ x ++ ", Key:" ++ k ++ (if i.b1 then ", CommaOk" else "")), r)
  | .TypeAssert =>
    let (x, r) := no 0 r
    (some ("TypeAssert " ++ x ++ ", AssertedType:" ++ i.s1 ++ (if i.b1 then ", CommaOk" else "")), r)
  | .MakeInterface =>
    -- the boxed type (exported in `s1`) is the dynamic type of the result (fix "MakeInterface shows the
    -- type that is boxed")
    let (x, r) := no 0 r
    (some ("MakeInterface " ++ i.typ ++ ", " ++ x ++ ", From:" ++ i.s1), r)
  | .ChangeType => conv "ChangeType" r
  | .Convert => conv "Convert" r
  | .ChangeInterface => conv "ChangeInterface" r
  | .SliceToArrayPointer => conv "SliceToArrayPointer" r
  | .MultiConvert => conv "MultiConvert" r
  | .RunDefers => (some "RunDefers", r)
  | .Panic => let (x, r) := no 0 r; (some ("Panic " ++ x), r)
  | .MakeClosure =>
    let (fnS, r) := no 0 r
    let (bs, r) := c.normalizeOperands i ((i.ops.drop 1).map (·.val)) r
    (some ("MakeClosure " ++ fnS ++
      (if bs.isEmpty then "" else " [" ++ String.intercalate ", " bs ++ "]")), r)
  | .FieldAddr =>
    let (x, r) := no 0 r
    (some ("FieldAddr " ++ x ++ ", field(" ++ toString i.n1 ++ ")"), r)
  | .Field =>
    let (x, r) := no 0 r
    (some ("Field " ++ x ++ ", field(" ++ toString i.n1 ++ ")"), r)
  | .Send =>
    let (ch, r) := no 0 r
    let (x, r) := no 1 r
    (some ("Send " ++ ch ++ ", " ++ x), r)
  | .MakeChan =>
    let (s, r) := no 0 r
    (some ("MakeChan " ++ i.typ ++ ", Size:" ++ s), r)
  | .DebugRef => (none, r)
  | .other _ => (some ("UnhandledInstr<" ++ i.kind.goType ++ ">"), r)

/-- `processInstruction`: the operands are rendered (and named) BEFORE the instruction's own
    value receives its register -/
def Canon.processInstruction (c : Canon) (i : Instr) (r : Regs) : String × Regs :=
  match c.instrBody i r with
  | (none, r) => ("", r)
  | (some body, r) =>
    if i.void then ("  " ++ body ++ "\n", r)
    else
      let (name, r) := normalizeValue (.instr i.id) r
      ("  " ++ name ++ " = " ++ body ++ "\n", r)

/-- `processBlock` -/
def Canon.processBlock (c : Canon) (b : Nat) (r : Regs) : String × Regs :=
  let head := c.blockName b ++ ":\n"
  let (loopLine, r) : String × Regs :=
    match c.loops.loopOfHeader? b with
    | none => ("", r)
    | some li =>
      match c.loops.all[li]? with
      | none => ("", r)
      | some l =>
        match l.tripCount with
        | none => ("  ; LoopHeader\n", r)
        | some tc =>
          let (s, r) := c.renderSCEV tc r
          ("  ; LoopHeader TripCount: " ++ s ++ "\n", r)
  let (body, r) := (c.effective.getD b []).foldl (fun (acc : String × Regs) i =>
    let (s, r) := c.processInstruction i acc.2
    (acc.1 ++ s, r)) ("", r)
  (head ++ loopLine ++ body, r)

/-- `writeFunctionSignature` -/
def writeFunctionSignature (f : Func) : String :=
  let ps := f.params.zipIdx.map (fun e => "p" ++ toString e.2 ++ ": " ++ e.1)
  "func(" ++ String.intercalate ", " ps ++ ")" ++
    (if f.results.isEmpty then "" else " -> (" ++ String.intercalate ", " f.results ++ ")") ++ "\n"

/-- parameters and free variables get their reserved names before any analysis -/
def initialRegs (f : Func) : Regs :=
  let r := (List.range f.params.length).foldl (fun r i =>
    (normalizeValueAs (.param i) ("p" ++ toString i) r).2) (Regs.init f.nInstrs)
  (List.range f.freeVars.length).foldl (fun r i =>
    (normalizeValueAs (.freeVar i) ("fv" ++ toString i) r).2) r

/-- ApplyVirtualControlFlowFromState + the analysis passes of CanonicalizeFunction -/
def mkCanon (policy : LiteralPolicy) (f : Func) (vcf : VirtualCF) : Canon :=
  -- ApplyVirtualControlFlowFromState: only blocks with exactly two successors are swapped
  let swapped := vcf.swappedBlocks.filter (fun b => (f.succs b).length == 2)
  -- AnalyzeLoops
  let info := analyzeSCEV f (detectLoops f)
  let hs := hoistInvariantCalls f
  let ivs := normalizeInductionVariables f info
  let sorted := sortedBlocks f swapped
  { policy := policy, fn := f, loops := ivs.loops, swapped := swapped,
    virtualBinOps := vcf.virtualBinOps, virtualInstrs := hs.virtualInstrs, hoisted := hs.hoisted,
    virtualized := ivs.virtualized, subs := ivs.subs,
    blockPos := mkBlockPos f.nBlocks sorted,
    effective := reconstructBlockInstructions f sorted ivs.virtualized hs.hoisted hs.virtualInstrs }

/-- `CanonicalizeFunction(fn)` after `ApplyVirtualControlFlowFromState(vcf)` -/
def canonicalizeFunction (policy : LiteralPolicy) (f : Func) (vcf : VirtualCF) : String :=
  if f.nBlocks == 0 then
    -- external function: only the signature is printed (the exporter does not carry the
    -- variadic flag, so this rendering is approximate; it never occurs for fingerprinted code)
    "funcfunc(" ++ String.intercalate ", " f.params ++ ")" ++
      (if f.results.isEmpty then "" else " (" ++ String.intercalate ", " f.results ++ ")") ++
      " (external)\n"
  else
    let c := mkCanon policy f vcf
    let sorted := sortedBlocks f c.swapped
    let (body, _) := sorted.foldl (fun (acc : String × Regs) b =>
      let (s, r) := c.processBlock b acc.2
      (acc.1 ++ s, r)) (writeFunctionSignature f, initialRegs f)
    body

/-- `GenerateFingerprint(fn, policy, strict).CanonicalIR` -/
def canonicalIR (policy : LiteralPolicy) (f : Func) : String :=
  canonicalizeFunction policy f (computeVirtualControlFlow f)

end Sfw.Canon
