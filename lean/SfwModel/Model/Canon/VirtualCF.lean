/-
  diff/fingerprinter.go : computeVirtualControlFlow.
  A block ending in `If (x >= y)` / `If (x > y)` over integers or strings, whose comparison is
  used by nothing but that If (DebugRefs aside), is printed as `x < y` / `x <= y` with the two
  successors swapped.
-/
import SfwModel.Model.Canon.MiniSSA
namespace Sfw.Canon

structure VirtualCF where
  /-- `swappedBlocks`, ascending block index -/
  swappedBlocks : List Nat
  /-- `virtualBinOps`: BinOp instruction id ↦ replacement operator -/
  virtualBinOps : List (Nat × String)
  deriving Repr, Inhabited

/-- `isSafeToSwap(t)`: the underlying type is a basic integer or string type -/
def isSafeToSwap (tf : TFlags) : Bool := tf.isInteger || tf.isString

/-- the decision for one block: `some (binOpId, newOp)` when the block is swapped -/
def virtualSwapOfBlock (f : Func) (b : Block) : Option (Nat × String) :=
  match b.instrs.getLast? with
  | none => none
  | some ifInstr =>
    if ifInstr.kind != .If then none else
    match (ifInstr.opVal 0).bind f.valInstr? with
    | none => none
    | some binOp =>
      if binOp.kind != .BinOp then none
      else if !(isSafeToSwap (binOp.opTf 0) && isSafeToSwap (binOp.opTf 1)) then none
      -- every referrer other than a DebugRef must be this very If
      else if binOp.refs.any (fun r => r.2 != .DebugRef && r.1 != ifInstr.id) then none
      else
        let newOp? : Option String :=
          if binOp.op == ">=" then some "<" else if binOp.op == ">" then some "<=" else none
        match newOp? with
        | none => none
        | some newOp => if b.succs.length != 2 then none else some (binOp.id, newOp)

/-- `computeVirtualControlFlow(fn)` -/
def computeVirtualControlFlow (f : Func) : VirtualCF :=
  f.blocks.foldl (fun (s : VirtualCF) b =>
    match virtualSwapOfBlock f b with
    | some (id, op) =>
      { swappedBlocks := s.swappedBlocks ++ [b.idx],
        -- map assignment: a later block with the same BinOp overwrites (same operator anyway)
        virtualBinOps := (s.virtualBinOps.filter (fun e => e.1 != id)) ++ [(id, op)] }
    | none => s) { swappedBlocks := [], virtualBinOps := [] }

end Sfw.Canon
