/-
  SCEV node types of loop/scev.go with their `StringWithRenamer`, `EvaluateAt(nil, nil)`.
  (`IsLoopInvariant` needs the loop and lives in ScevAnalysis.lean.)
-/
import SfwModel.Model.Canon.MiniSSA
namespace Sfw.Canon

/-- SCEVAddRec / SCEVConstant / SCEVUnknown / SCEVGenericExpr / SCEVMax.
    A loop is identified by the index of its header block (DetectLoops creates one loop per
    header), so `SCEVAddRec.Loop == loop` is a comparison of header indices. -/
inductive SCEV where
  | addRec  (start step : SCEV) (loopHeader : Nat) (typ : String)
  | const   (v : Int)
  | unknown (v : Option Val) (isInvariant : Bool)
  | generic (op : String) (x y : SCEV)
  /-- an SCEVGenericExpr with `Commutative` set: taken from a source-level integer `+ * & | ^`
      (fix "commutative integer operands inside loop bounds are printed in string order") -/
  | comm    (op : String) (x y : SCEV)
  | max     (x y : SCEV)
  deriving Repr, Inhabited

/-- `StringWithRenamer(r)`; `lbl` maps a loop (its header block) to its `Label`; the renamer threads a state `σ` (the register map), and Go evaluates
    the `Sprintf` arguments left to right -/
def SCEV.render {σ : Type} (lbl : Nat → String) (r : Val → σ → String × σ) : SCEV → σ → String × σ
  | .addRec start step h typ, st =>
    let (a, st) := start.render lbl r st
    let (b, st) := step.render lbl r st
    -- `loopSuffix`: the recurrence names the loop it runs with (fix "an induction variable's closed
    -- form names the loop it runs with"); `lbl h` is `Loop.Label`, "" while the loop is unlabelled
    -- `typeSuffix`: the type of the variable the recurrence wraps around in (fix "an induction
    -- variable's closed form names the type it wraps around in"); "" = VarType unknown
    ("{" ++ a ++ ", +, " ++ b ++ "}" ++ (if lbl h == "" then "" else "@" ++ lbl h) ++
      (if typ == "" then "" else ":" ++ typ), st)
  | .const v, st => (toString v, st)
  | .unknown none inv, st => (if inv then "?(inv)" else "?", st)
  | .unknown (some v) inv, st =>
    let (n, st) := r v st
    (if inv then n ++ "(inv)" else n, st)
  | .generic op x y, st =>
    let (a, st) := x.render lbl r st
    let (b, st) := y.render lbl r st
    ("(" ++ a ++ " " ++ op ++ " " ++ b ++ ")", st)
  | .comm op x y, st =>
    -- both operands are rendered (and named) in source order, then printed in string order
    let (a, st) := x.render lbl r st
    let (b, st) := y.render lbl r st
    (if decide (b < a) then "(" ++ b ++ " " ++ op ++ " " ++ a ++ ")"
     else "(" ++ a ++ " " ++ op ++ " " ++ b ++ ")", st)
  | .max x y, st =>
    let (a, st) := x.render lbl r st
    let (b, st) := y.render lbl r st
    ("max(" ++ a ++ ", " ++ b ++ ")", st)

/-- `big.Int.Quo`: truncated division (caller excludes a zero divisor) -/
def bigQuo (x y : Int) : Int := Int.tdiv x y

/-- `EvaluateAt(nil, nil)`: k = nil and no cache.  An AddRec evaluates its children and then
    answers nil because k is nil. -/
def SCEV.evalNil : SCEV → Option Int
  | .addRec _ _ _ _ => none
  | .const v => some v
  | .unknown _ _ => none
  | .generic op x y =>
    match x.evalNil, y.evalNil with
    | some a, some b =>
      if op == "+" then some (a + b)
      else if op == "-" then some (a - b)
      else if op == "*" then some (a * b)
      else if op == "/" then (if b == 0 then none else some (bigQuo a b))
      else none
    | _, _ => none
  | .comm op x y =>
    match x.evalNil, y.evalNil with
    | some a, some b =>
      if op == "+" then some (a + b)
      else if op == "*" then some (a * b)
      else none
    | _, _ => none
  | .max x y =>
    match x.evalNil, y.evalNil with
    | some a, some b => some (if a > b then a else b)
    | _, _ => none

end Sfw.Canon
