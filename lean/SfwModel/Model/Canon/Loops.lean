/-
  loop/loops.go : DetectLoops (back edges via dominance, loop bodies, exits, nesting), CountLoops.
-/
import SfwModel.Model.Canon.Dom
import SfwModel.Model.Canon.Scev
namespace Sfw.Canon

inductive IVType where
  | unknown | basic | derived | geometric | polynomial
  deriving DecidableEq, Repr, Inhabited

structure InductionVariable where
  phi   : Nat
  type  : IVType
  start : SCEV
  step  : SCEV
  deriving Repr, Inhabited

/-- `loop.SCEVCache` : map[ssa.Value]SCEV as an association list (newest binding first) -/
abbrev SCEVCache := List (Val × SCEV)

def SCEVCache.find? (c : SCEVCache) (v : Val) : Option SCEV :=
  match List.find? (fun e => e.1 == v) c with
  | some e => some e.2
  | none => none

def SCEVCache.insert (c : SCEVCache) (v : Val) (s : SCEV) : SCEVCache := (v, s) :: c

/-- `loop.Loop`.  Loops live in the array `LoopInfo.all`; `parent` / `children` are indices into
    that array (Go: pointers). -/
structure Loop where
  header     : Nat
  latch      : Nat
  /-- membership array over block indices (Go: `map[*ssa.BasicBlock]bool`) -/
  blocks     : Array Bool
  exits      : List Nat
  parent     : Option Nat
  children   : List Nat
  /-- `Inductions`, keyed by the id of the header phi, in insertion order -/
  inductions : List (Nat × InductionVariable)
  tripCount  : Option SCEV
  cache      : SCEVCache
  deriving Repr, Inhabited

def Loop.contains (l : Loop) (b : Nat) : Bool := bitGet l.blocks b

/-- `len(loop.Blocks)` -/
def Loop.size (l : Loop) : Nat := l.blocks.foldl (fun n x => if x then n + 1 else n) 0

def Loop.induction? (l : Loop) (phi : Nat) : Option InductionVariable :=
  match l.inductions.find? (fun e => e.1 == phi) with
  | some e => some e.2
  | none => none

structure LoopInfo where
  /-- `allLoops`: one loop per header, ascending header index -/
  all   : Array Loop
  /-- `info.Loops`: the top-level loops (indices into `all`) -/
  roots : List Nat
  deriving Repr, Inhabited

/-- `info.LoopMap[block]` : index of the loop headed by `block` -/
def LoopInfo.loopOfHeader? (info : LoopInfo) (b : Nat) : Option Nat :=
  info.all.findIdx? (fun l => l.header == b)

/-- back edges `b → succ` with `succ.Dominates(b)`, edges into fn.Recover skipped:
    (header, latch) pairs in discovery order -/
def backEdges (f : Func) : List (Nat × Nat) :=
  f.blocks.toList.flatMap (fun b =>
    b.succs.filterMap (fun s =>
      if some s == f.recover then none
      else if dominates f s b.idx then some (s, b.idx) else none))

/-- insert into an ascending duplicate-free list -/
def insertAsc (x : Nat) : List Nat → List Nat
  | [] => [x]
  | y :: ys => if x < y then x :: y :: ys else if x == y then y :: ys else y :: insertAsc x ys

/-- `headers`, sorted by block index -/
def loopHeaders (edges : List (Nat × Nat)) : List Nat :=
  edges.foldl (fun acc e => insertAsc e.1 acc) []

/-- `headerToLatches[h]` in discovery order -/
def latchesOf (edges : List (Nat × Nat)) (h : Nat) : List Nat :=
  edges.filterMap (fun e => if e.1 == h then some e.2 else none)

/-- worklist of `constructLoopBody`; fuel bounds the number of pops -/
def constructLoopBodyLoop (f : Func) (header : Nat) : Nat → List Nat → Array Bool → Array Bool
  | 0, _, blocks => blocks
  | _ + 1, [], blocks => blocks
  | fuel + 1, curr :: work, blocks =>
    if curr == header then constructLoopBodyLoop f header fuel work blocks
    else
      -- unvisited predecessors are marked and pushed (Go pops from the END of the worklist;
      -- the resulting SET does not depend on the order)
      let (blocks, work) := (f.preds curr).foldl (fun (acc : Array Bool × List Nat) p =>
        if bitGet acc.1 p then acc else (bitSet acc.1 p, p :: acc.2)) (blocks, work)
      constructLoopBodyLoop f header fuel work blocks

/-- `constructLoopBody` -/
def constructLoopBody (f : Func) (header : Nat) (latches : List Nat) : Array Bool :=
  let blocks := bitSet (Array.replicate f.nBlocks false) header
  let (blocks, work) := latches.foldl (fun (acc : Array Bool × List Nat) l =>
    (bitSet acc.1 l, l :: acc.2)) (blocks, [])
  constructLoopBodyLoop f header (f.nEdges + f.nBlocks + latches.length + 2) work blocks

/-- `loop.Exits`: blocks of the loop with a successor outside, ascending index -/
def loopExits (f : Func) (blocks : Array Bool) : List Nat :=
  (List.range f.nBlocks).filter (fun b =>
    bitGet blocks b && (f.succs b).any (fun s => !bitGet blocks s))

def mkLoop (f : Func) (edges : List (Nat × Nat)) (header : Nat) : Loop :=
  let latches := latchesOf edges header
  let blocks := constructLoopBody f header latches
  { header := header, latch := latches.headD header, blocks := blocks,
    exits := loopExits f blocks, parent := none, children := [],
    inductions := [], tripCount := none, cache := [] }

/-- the innermost strictly enclosing candidate: smallest `len(candidate.Blocks)` among the
    other loops containing the child's header; the first one wins a tie -/
def bestParent (all : Array Loop) (child : Nat) : Option Nat :=
  match all[child]? with
  | none => none
  | some c =>
    let r := (List.range all.size).foldl (fun (best : Option (Nat × Nat)) cand =>
      if cand == child then best else
      match all[cand]? with
      | none => best
      | some cl =>
        if cl.contains c.header then
          let size := cl.size
          match best with
          | none => some (cand, size)
          | some (_, bs) => if size < bs then some (cand, size) else best
        else best) none
    r.map (·.1)

/-- the nesting pass of DetectLoops -/
def nestLoops (all : Array Loop) : LoopInfo :=
  (List.range all.size).foldl (fun (info : LoopInfo) child =>
    match bestParent all child with
    | some p =>
      let a := info.all.modify child (fun l => { l with parent := some p })
      let a := a.modify p (fun l => { l with children := l.children ++ [child] })
      { info with all := a }
    | none => { info with roots := info.roots ++ [child] })
    { all := all, roots := [] }

/-- `DetectLoops` -/
def detectLoops (f : Func) : LoopInfo :=
  let edges := backEdges f
  let all := ((loopHeaders edges).map (mkLoop f edges)).toArray
  nestLoops all

/-- `CountLoops(info.Loops)`: loops reachable from the roots through `children` -/
def countLoopsLoop (info : LoopInfo) : Nat → List Nat → Nat → Nat
  | 0, _, n => n
  | _ + 1, [], n => n
  | fuel + 1, stack, n =>
    match stack.getLast? with
    | none => n
    | some l =>
      let kids := match info.all[l]? with
        | some lp => lp.children
        | none => []
      countLoopsLoop info fuel (stack.dropLast ++ kids) (n + 1)

def countLoops (info : LoopInfo) : Nat :=
  countLoopsLoop info (info.all.size + 1) info.roots 0

end Sfw.Canon
