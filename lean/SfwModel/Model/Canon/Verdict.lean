/-
  C04 — what the structural matcher has checked when it says `preserved` with every instruction
  matched, as one decidable predicate on two functions of the interpreter's fragment and the
  zipper's final maps (`zipperAccepts`).  CORE ONLY; evaluated by the driver (command `iso`) on the
  REAL zipper's maps, and the hypothesis of Props/C04Verdict.lean `C04_zipper_verdict_sound`.
-/
import SfwModel.Model.Canon.SemIso
import SfwModel.Model.ZipperCF
namespace Sfw.Canon.Sem
open Sfw.Canon Sfw.ZipperCF

namespace Verdict

/-- what `enforceControlFlow` looks at: per block the instruction ids in order, successors,
    predecessors; which instructions are phis -/
def layoutOf (f : Func) : Layout :=
  { blocks := f.blocks.map (fun bl => bl.instrs.map (·.id)),
    succs := f.blocks.map (·.succs),
    preds := f.blocks.map (·.preds),
    phis := (f.instrs.toList.filter (fun i => i.kind == .Phi)).map (·.id) }

/-- the zipper's forward map as a list of pairs -/
def pairsOf (m : Matching) : Pairs :=
  (List.range m.instr.size).map (fun d => (d, m.instr.getD d 0))

def terminatorKind (k : Kind) : Bool := k == .If || k == .Jump || k == .Return || k == .Panic

/-- what go/ssa guarantees about every function it builds and the exporter about its numbering:
    every block ends in its only terminator; instruction ids are consecutive in block order (so
    every entry of the instruction table sits in exactly one block) -/
def shapeCheck (f : Func) : Bool :=
  f.blocks.toList.all (fun bl =>
    (match bl.instrs.getLast? with
     | some t => terminatorKind t.kind
     | none => false) &&
    bl.instrs.dropLast.all (fun i => !terminatorKind i.kind)) &&
  f.blocks.toList.flatMap (fun bl => bl.instrs.map (·.id)) == List.range f.instrs.size

/-- what go/ssa guarantees about the edge lists: every successor of a block is a block that lists
    this block among its predecessors; every predecessor is a block -/
def cfgCheck (f : Func) : Bool :=
  (List.range f.blocks.size).all (fun b =>
    match f.blocks[b]? with
    | none => false
    | some bl =>
      bl.succs.all (fun s =>
        match f.blocks[s]? with
        | some bs => bs.preds.contains b
        | none => false) &&
      bl.preds.all (fun p => decide (p < f.blocks.size)))

/-- what the zipper itself checks before it says `preserved` -/
def zipperCore (f g : Func) (m : Matching) : Bool :=
  wfCheck f && wfCheck g && shapeCheck f && shapeCheck g &&
  f.blocks.size == g.blocks.size && f.instrs.size == g.instrs.size &&
  m.instr.size == f.instrs.size && m.block.size == f.blocks.size &&
  injectiveArr m.instr && m.instr.all (· < g.instrs.size) &&
  -- every pair passed the equivalence test
  (List.range f.instrs.size).all (fun d =>
    match f.instrs[d]?, (m.im d).bind (fun d' => g.instrs[d']?) with
    | some i, some i' => instrMatches m i i'
    | _, _ => false) &&
  -- enforceControlFlow undid nothing
  (badPairs (layoutOf f) (layoutOf g) (pairsOf m)).isEmpty &&
  -- the block map is the one enforceControlFlow derives from the terminators
  (List.range f.blocks.size).all (fun b =>
    blockOf (layoutOf f) (layoutOf g) (pairsOf m) b == m.bm b && (m.bm b).isSome)

/-- the zipper's checks, on two functions with consistent edge lists -/
def zipperAccepts (f g : Func) (m : Matching) : Bool :=
  zipperCore f g m && cfgCheck f && cfgCheck g

end Verdict

end Sfw.Canon.Sem
