/-
  loop/scev.go : AnalyzeSCEV, identifyInductionVariables / findLoopSCCs, classifyIV,
  deriveTripCount, ToSCEV / computeSCEV (with its per-loop cache and depth limit), IsLoopInvariant.
-/
import SfwModel.Model.Canon.Loops
import SfwModel.Model.Canon.Tarjan
namespace Sfw.Canon

def MaxSCEVDepth : Nat := 100

/-- `MaxSCEVNodes` -/
def MaxSCEVNodes : Nat := 128

/-- `scevNodes`: number of nodes of the expression tree (Go saturates at 2^30, far above anything
    the guard lets through) -/
def SCEV.nodes : SCEV → Nat
  | .generic _ x y => 1 + x.nodes + y.nodes
  | .comm _ x y => 1 + x.nodes + y.nodes
  | .addRec a b _ _ => 1 + a.nodes + b.nodes
  | .max x y => 1 + x.nodes + y.nodes
  | _ => 1

/-- `commutativeIntOp(b)`: `+ * & | ^` with an integer result -/
def commutativeIntOp (i : Instr) : Bool :=
  (i.op == "+" || i.op == "*" || i.op == "&" || i.op == "|" || i.op == "^") && i.tf.isInteger

/-- block of the instruction behind a value (`instr.Block()`), if it is an instruction -/
def valBlock? (f : Func) : Val → Option Nat
  | .instr id => (f.instr? id).map (·.blk)
  | _ => none

/-- `IsLoopInvariant(loop)` of the five SCEV node types -/
def SCEV.isLoopInvariant (f : Func) (l : Loop) : SCEV → Bool
  | .addRec start step h _ =>
    if h == l.header then false
    else start.isLoopInvariant f l && step.isLoopInvariant f l
  | .const _ => true
  | .unknown v inv =>
    if inv then true else
    match v with
    | none => false
    | some (.const _) => true
    | some (.instr id) =>
      match f.instr? id with
      | some i => !l.contains i.blk
      | none => true
    | some _ => true
  | .generic _ x y => x.isLoopInvariant f l && y.isLoopInvariant f l
  | .comm _ x y => x.isLoopInvariant f l && y.isLoopInvariant f l
  | .max x y => x.isLoopInvariant f l && y.isLoopInvariant f l

/-- `SCEVFromConst` -/
def scevFromConst (c : Const) : SCEV :=
  match c.kind with
  | .nil => .const 0
  | .int =>
    match c.text.toInt? with
    | some i => .const i
    | none => .unknown (some (.const c)) true
  | _ => .unknown (some (.const c)) true

/-- `computeSCEV(v, loop, depth)` with `depth = MaxSCEVDepth + 1 - fuel`: at `fuel = 0` the depth
    limit is exceeded and an uncached value becomes a NON-invariant Unknown that is NOT cached.
    The cache is threaded exactly as in Go (left operand before right operand, then the value). -/
def computeSCEV (f : Func) (l : Loop) : Nat → Val → SCEVCache → SCEV × SCEVCache
  | 0, v, cache =>
    match cache.find? v with
    | some s => (s, cache)
    | none => (.unknown (some v) false, cache)
  | fuel + 1, v, cache =>
    match cache.find? v with
    | some s => (s, cache)
    | none =>
      -- computeSCEVBody
      let (res, cache) : SCEV × SCEVCache :=
        match v with
        | .const c => (scevFromConst c, cache)
        | .instr id =>
          match f.instr? id with
          | none => (.unknown (some v) true, cache)
          | some i =>
            match i.kind with
            | .Phi =>
              if i.blk == l.header then
                match l.induction? id with
                | some iv => (.addRec iv.start iv.step l.header i.typ, cache)
                | none => (.unknown (some v) false, cache)
              else (.unknown (some v) false, cache)
            | .BinOp =>
              match i.opVal 0, i.opVal 1 with
              | some x, some y =>
                let (left, cache) := computeSCEV f l fuel x cache
                let (right, cache) := computeSCEV f l fuel y cache
                -- size guard (fix "bound the size of SCEV expressions built for one value")
                if left.nodes + right.nodes + 1 > MaxSCEVNodes then
                  (.unknown (some v) (!l.contains i.blk), cache)
                else if commutativeIntOp i then (.comm i.op left right, cache)
                else (.generic i.op left right, cache)   -- foldSCEV
              | _, _ => (.unknown (some v) (!l.contains i.blk), cache)
            | _ => (.unknown (some v) (!l.contains i.blk), cache)
        | _ => (.unknown (some v) true, cache)
      (res, cache.insert v res)

/-- `ToSCEV(v, loop)` on the loop's cache -/
def toSCEVCache (f : Func) (l : Loop) (v : Val) (cache : SCEVCache) : SCEV × SCEVCache :=
  match cache.find? v with
  | some s => (s, cache)
  | none =>
    let (res, cache) := computeSCEV f l (MaxSCEVDepth + 1) v cache
    (res, cache.insert v res)

/-- `ToSCEV(v, loop)`, returning the loop with its updated cache -/
def toSCEV (f : Func) (l : Loop) (v : Val) : SCEV × Loop :=
  let (s, cache) := toSCEVCache f l v l.cache
  (s, { l with cache := cache })

/-- instructions of the loop in function block order (`loopInstrs`) -/
def loopInstrs (f : Func) (l : Loop) : List Instr :=
  f.blocks.toList.flatMap (fun b => if l.contains b.idx then b.instrs else [])

/-- `findLoopSCCs`: Tarjan over the def-use graph restricted to the loop's instructions;
    an instruction's neighbours are its operands (go/ssa `Operands` order) that are instructions
    of the loop -/
def findLoopSCCs (f : Func) (instrs : List Instr) : List (List Nat) :=
  let nodes := instrs.foldl (fun a i => bitSet a i.id) (Array.replicate f.nInstrs false)
  let nbrs := fun (v : Nat) =>
    match f.instr? v with
    | none => []
    | some i => i.ops.filterMap (fun o =>
        match o.val with
        | some (.instr w) => if bitGet nodes w then some w else none
        | _ => none)
  tarjanSCCs f.nInstrs nbrs (instrs.map (·.id))

/-- the phi's start value: the unique value on the edges from outside the loop, with every edge
    from inside the loop equal to `binOp`; `none` = classifyIV gives up -/
def ivStartVal (l : Loop) (phi binOp : Instr) (preds : List Nat) : Option Val :=
  let rec go : List Nat → List Operand → Option Val → Option (Option Val)
    | [], _, acc => some acc
    | _ :: _, [], acc => some acc
    | p :: ps, e :: es, acc =>
      if !l.contains p then
        match acc, e.val with
        | none, ev => go ps es ev
        | some sv, ev => if ev == some sv then go ps es acc else none
      else
        if e.val == some (.instr binOp.id) then go ps es acc else none
  match go preds phi.ops none with
  | some r => r
  | none => none

/-- `classifyIV(loop, phi, scc)` -/
def classifyIV (f : Func) (l : Loop) (phi : Instr) (scc : List Instr) : Loop :=
  let phiV : Val := .instr phi.id
  -- first BinOp of the component that has the phi as an operand
  match scc.find? (fun i => i.kind == .BinOp && (i.opVal 0 == some phiV || i.opVal 1 == some phiV)) with
  | none => l
  | some binOp =>
    if !binOp.tf.isInteger then l else
    let stepVal? : Option Val :=
      if binOp.opVal 0 == some phiV then binOp.opVal 1
      else if binOp.op == "-" then none
      else binOp.opVal 0
    match stepVal? with
    | none => l
    | some stepVal =>
      let (stepSCEV, l) := toSCEV f l stepVal
      if !stepSCEV.isLoopInvariant f l then l else
      match ivStartVal l phi binOp (f.preds phi.blk) with
      | none => l
      | some startVal =>
        let (startSCEV, l) := toSCEV f l startVal
        let iv? : Option InductionVariable :=
          if binOp.op == "+" then
            some { phi := phi.id, type := .basic, start := startSCEV, step := stepSCEV }
          else if binOp.op == "-" then
            let step := match stepSCEV with
              | .const c => SCEV.const (-c)
              | s => .generic "*" s (.const (-1))
            some { phi := phi.id, type := .basic, start := startSCEV, step := step }
          else if binOp.op == "*" then
            some { phi := phi.id, type := .geometric, start := startSCEV, step := stepSCEV }
          else none
        match iv? with
        | none => l
        | some iv =>
          -- loop.Inductions[phi] = iv
          { l with inductions := (l.inductions.filter (fun e => e.1 != phi.id)) ++ [(phi.id, iv)] }

/-- `identifyInductionVariables(loop)` -/
def identifyInductionVariables (f : Func) (l : Loop) : Loop :=
  let sccs := findLoopSCCs f (loopInstrs f l)
  sccs.foldl (fun (l : Loop) scc =>
    let sccI := scc.filterMap f.instr?
    match sccI.find? (fun i => i.kind == .Phi && i.blk == l.header) with
    | none => l
    | some headerPhi => classifyIV f l headerPhi sccI) l

/-- the trip-count formulas at the end of `deriveTripCount` -/
def tripCountFormula (isNEQ isUpCounting isInclusive : Bool) (iv : InductionVariable)
    (limit : SCEV) : Option SCEV :=
  let zero := SCEV.const 0
  let one := SCEV.const 1
  if isNEQ then
    match iv.step.evalNil with
    | none => none
    | some stepVal =>
      if stepVal == 1 then some (.max zero (.generic "-" limit iv.start))
      else if stepVal == -1 then some (.max zero (.generic "-" iv.start limit))
      else none
  else if isUpCounting then
    let diff := SCEV.generic "-" limit iv.start
    let numer :=
      if isInclusive then SCEV.generic "+" diff iv.step
      else .generic "-" (.generic "+" diff iv.step) one
    some (.max zero (.generic "/" numer iv.step))
  else
    let diff := SCEV.generic "-" iv.start limit
    let absStep := SCEV.generic "*" iv.step (.const (-1))
    let numer :=
      if isInclusive then SCEV.generic "+" diff absStep
      else .generic "-" (.generic "+" diff absStep) one
    some (.max zero (.generic "/" numer absStep))

/-- result of the "Verify Direction for Safety" block -/
inductive DirCheck where
  | proceed
  | done (tc : SCEV)
  deriving Repr

def directionCheck (isNEQ isUpCounting isInclusive : Bool) (iv : InductionVariable) (limit : SCEV) : DirCheck :=
  let zero := SCEV.const 0
  match iv.start.evalNil, limit.evalNil, iv.step.evalNil with
  | some startC, some limitC, some stepC =>
    if !isNEQ then
      if isUpCounting then
        -- with `<=` the loop still runs once when start = limit (fix "an inclusive loop test with
        -- equal constant bounds runs once")
        if startC > limitC || (startC == limitC && !isInclusive) then .done zero
        else if stepC ≤ 0 then .done (.unknown none false)
        else .proceed
      else
        if startC < limitC || (startC == limitC && !isInclusive) then .done zero
        else if stepC ≥ 0 then .done (.unknown none false)
        else .proceed
    else
      if startC == limitC then .done zero else .proceed
  | _, _, _ => .proceed

/-- the closed forms need a constant step that moves TOWARDS the limit (fix "no trip count for
    loops whose step moves away from the limit") -/
def stepSignOk (isNEQ isUpCounting : Bool) (iv : InductionVariable) : Bool :=
  if isNEQ then true
  else
    match iv.step.evalNil with
    | none => false
    | some stepC => if isUpCounting then decide (0 < stepC) else decide (stepC < 0)

/-- the comparison that holds when the FALSE successor is the one that stays in the loop -/
def negateCmp (op : String) : Option String :=
  if op == "<" then some ">="
  else if op == "<=" then some ">"
  else if op == ">" then some "<="
  else if op == ">=" then some "<"
  else if op == "==" then some "!="
  else none

/-- (isUpCounting, isInclusive, isNEQ) for a continue condition `iv op limit` -/
def cmpFlags (op : String) : Option (Bool × Bool × Bool) :=
  if op == "<" then some (true, false, false)
  else if op == "<=" then some (true, true, false)
  else if op == ">" then some (false, false, false)
  else if op == ">=" then some (false, true, false)
  else if op == "!=" then some (false, false, true)
  else none

/-- `limit op iv` read as a condition on iv: the direction flips, inclusiveness stays -/
def flipForRight (isNEQ isUp0 : Bool) : Bool := if !isNEQ then !isUp0 else isUp0

/-- width of the counter's type from its flag word (8, 16, 32; everything else counts as 64) -/
def ivBits (t : TFlags) : Nat :=
  match (t / 64) % 8 with
  | 1 => 8
  | 2 => 16
  | 3 => 32
  | _ => 64

def ivUnsigned (t : TFlags) : Bool := (t / 32) % 2 == 1

/-- smallest and largest value of the counter's type -/
def ivLo (t : TFlags) : Int := if ivUnsigned t then 0 else -(2 ^ (ivBits t - 1))
def ivHi (t : TFlags) : Int := if ivUnsigned t then 2 ^ ivBits t - 1 else 2 ^ (ivBits t - 1) - 1

/-- `tripCountMayWrap` (fix "no trip count for a counter that can wrap around before the test
    fails"): may the counter leave the range of its type before the test fails?  `t` = flag word of
    the header phi's type. -/
def tripCountMayWrap (t : TFlags) (isNEQ isUpCounting isInclusive : Bool) (iv : InductionVariable)
    (limit : SCEV) : Bool :=
  if !t.isInteger then false else
  match iv.step.evalNil with
  | none => false
  | some stepC =>
    if isNEQ then
      match iv.start.evalNil, limit.evalNil with
      | some startC, some limitC =>
        (decide (0 < stepC) && decide (limitC < startC)) || (decide (stepC < 0) && decide (startC < limitC))
      | _, _ => decide (ivBits t < 64)
    else
      let d : Int := stepC.natAbs
      if d == 1 then false else
      match limit.evalNil with
      | none => decide (ivBits t < 64)
      | some limitC =>
        let over : Int := if isInclusive then d else d - 1
        if isUpCounting then decide (ivHi t < limitC + over) else decide (limitC - over < ivLo t)

/-- `narrowBoundMayWrap` (fix "no trip count for a narrow counter whose bounds are computed"): a
    start or limit of a counter narrower than 64 bits must be a value of the counter's type taken as
    it is - a constant inside the range, or an opaque value; an arithmetic expression can leave the
    range (`x + 100` on a uint8) -/
def narrowBoundMayWrap (t : TFlags) (s : SCEV) : Bool :=
  if !t.isInteger || decide (64 ≤ ivBits t) then false else
  match s with
  | .const c => decide (c < ivLo t) || decide (ivHi t < c)
  | .unknown _ _ => false
  | _ => true

/-- what `deriveTripCount` stores once it has found the IV (`t` = flag word of its phi's type), the
    limit and the flags (`none` = the loop's TripCount field is left as it was) -/
def decideTripCount (t : TFlags) (isNEQ isUp isInc : Bool) (iv : InductionVariable) (limit : SCEV) :
    Option SCEV :=
  if narrowBoundMayWrap t iv.start || narrowBoundMayWrap t limit then some (.unknown none false) else
  match directionCheck isNEQ isUp isInc iv limit with
  | .done tc => some tc
  | .proceed =>
    if !stepSignOk isNEQ isUp iv then some (.unknown none false)
    else if tripCountMayWrap t isNEQ isUp isInc iv limit then some (.unknown none false)
    else tripCountFormula isNEQ isUp isInc iv limit

/-- `deriveTripCount(loop)` -/
def deriveTripCount (f : Func) (l : Loop) : Loop :=
  match l.exits with
  | [exitBlock] =>
    -- fix "no trip count for a loop whose exit test is skipped on some iterations": the exiting
    -- block has to dominate every back edge
    if (f.preds l.header).any (fun p => l.contains p && !dominates f exitBlock p) then
      { l with tripCount := some (.unknown none false) } else
    match (f.blockInstrs exitBlock).getLast? with
    | none => l
    | some ifInstr =>
      if ifInstr.kind != .If then l else
      match (ifInstr.opVal 0).bind f.valInstr? with
      | none => l
      | some binOp =>
        if binOp.kind != .BinOp then l else
        -- polarity: the comparison is a continue condition only if its TRUE successor stays in the
        -- loop; when the true successor is the exit the comparison is negated; otherwise unknown
        let succs := f.succs exitBlock
        let effOp? : Option String :=
          match succs with
          | [sT, sF] =>
            let trueStays := l.contains sT
            let falseStays := l.contains sF
            if trueStays && !falseStays then some binOp.op
            else if !trueStays && falseStays then negateCmp binOp.op
            else none
          | _ => none
        match effOp? with
        | none => { l with tripCount := some (.unknown none false) }
        | some op =>
        -- (isUpCounting, isInclusive, isNEQ); ivOnLeft is computed by Go but never read
        match cmpFlags op with
        | none => { l with tripCount := some (.unknown none false) }
        | some (isUp0, isInclusive, isNEQ) =>
          let findIV := fun (v : Option Val) =>
            match v with
            | some (.instr id) =>
              match f.instr? id with
              | some i => if i.kind == .Phi then (l.induction? id).map (fun iv => (iv, i.tf)) else none
              | none => none
            | _ => none
          let found? : Option ((InductionVariable × TFlags) × Option Val × Bool) :=
            match findIV (binOp.opVal 0) with
            | some iv => some (iv, binOp.opVal 1, isUp0)
            | none =>
              match findIV (binOp.opVal 1) with
              | some iv => some (iv, binOp.opVal 0, flipForRight isNEQ isUp0)
              | none => none
          match found? with
          | none => l
          | some ((iv, phiTf), limit?, isUpCounting) =>
            if iv.type != .basic then l else
            match limit? with
            | none => l
            | some limit =>
              let (limitSCEV, l) := toSCEV f l limit
              if !limitSCEV.isLoopInvariant f l then l else
              match decideTripCount phiTf isNEQ isUpCounting isInclusive iv limitSCEV with
              | some tc => { l with tripCount := some tc }
              | none => l
  | _ => { l with tripCount := some (.unknown none false) }

/-- the stack walk of `AnalyzeSCEV`: pop the LAST loop, analyse it, push its children -/
def analyzeSCEVLoop (f : Func) : Nat → List Nat → LoopInfo → LoopInfo
  | 0, _, info => info
  | fuel + 1, stack, info =>
    match stack.getLast? with
    | none => info
    | some li =>
      match info.all[li]? with
      | none => analyzeSCEVLoop f fuel stack.dropLast info
      | some l =>
        let l := deriveTripCount f (identifyInductionVariables f l)
        let info := { info with all := info.all.setIfInBounds li l }
        analyzeSCEVLoop f fuel (stack.dropLast ++ l.children) info

/-- `AnalyzeSCEV(info)` -/
def analyzeSCEV (f : Func) (info : LoopInfo) : LoopInfo :=
  analyzeSCEVLoop f (info.all.size + 1) info.roots info

end Sfw.Canon
