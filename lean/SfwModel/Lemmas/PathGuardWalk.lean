/-
  Helper lemmas for C20: a generic component walker of which `evalSym` and `realWalk` are the
  two instances, the prefix/suffix decomposition of a walk, and fuel/link monotonicity.
-/
import SfwModel.Model.PathGuard
import Mathlib.Tactic.SplitIfs
namespace Sfw.PathGuard

/-- the walker shared by `evalSym` and `realWalk`; `miss` says what happens at a missing
    component -/
def walk (miss : Path → List Str → Res) (fs : FS) : Nat → Nat → Path → List Str → Res
  | 0, _, _, _ => .otherErr
  | _ + 1, _, cur, [] => .ok cur
  | fuel + 1, links, cur, c :: rest =>
    if c = [] ∨ c = ['.'] then walk miss fs fuel links cur rest
    else if c = ['.', '.'] then walk miss fs fuel links cur.dropLast rest
    else match fs.lookup (cur ++ [c]) with
      | none => miss cur (c :: rest)
      | some (.link tgt) =>
        if links ≥ 255 then .otherErr
        else if isAbs tgt then walk miss fs fuel (links + 1) [] (splitSlash tgt ++ rest)
        else walk miss fs fuel (links + 1) cur (splitSlash tgt ++ rest)
      | some .file => if rest.all (fun r => r = [] ∨ r = ['.']) then .ok (cur ++ [c]) else .otherErr
      | some .dir => walk miss fs fuel links (cur ++ [c]) rest

def missE : Path → List Str → Res := fun _ _ => .notExist
def missR : Path → List Str → Res := fun cur todo => .ok (joinClean cur todo)

theorem evalSym_eq_walk (fs : FS) (f l : Nat) (cur : Path) (t : List Str) :
    evalSym fs f l cur t = walk missE fs f l cur t := by
  induction f generalizing l cur t with
  | zero => simp [evalSym, walk]
  | succ f ih =>
    cases t with
    | nil => simp [evalSym, walk]
    | cons c rest =>
      simp only [evalSym, walk, ih, missE]
      rfl

theorem realWalk_eq_walk (fs : FS) (f l : Nat) (cur : Path) (t : List Str) :
    realWalk fs f l cur t = walk missR fs f l cur t := by
  induction f generalizing l cur t with
  | zero => simp [realWalk, walk]
  | succ f ih =>
    cases t with
    | nil => simp [realWalk, walk]
    | cons c rest =>
      simp only [realWalk, walk, ih, missR]
      rfl


/-! ### one-step unfolding lemmas -/
section steps
variable (miss : Path → List Str → Res) (fs : FS) (f l : Nat) (cur : Path) (c : Str) (rest : List Str)

theorem walk_zero (t : List Str) : walk miss fs 0 l cur t = .otherErr := by simp [walk]

theorem walk_nil : walk miss fs (f + 1) l cur [] = .ok cur := by simp [walk]

theorem walk_triv (h : c = [] ∨ c = ['.']) :
    walk miss fs (f + 1) l cur (c :: rest) = walk miss fs f l cur rest := by
  simp only [walk, if_pos h]

theorem walk_dotdot (h : c = ['.', '.']) :
    walk miss fs (f + 1) l cur (c :: rest) = walk miss fs f l cur.dropLast rest := by
  subst h; simp [walk]

theorem walk_none (h1 : ¬ (c = [] ∨ c = ['.'])) (h2 : c ≠ ['.', '.'])
    (hl : fs.lookup (cur ++ [c]) = none) :
    walk miss fs (f + 1) l cur (c :: rest) = miss cur (c :: rest) := by
  simp only [walk, if_neg h1, if_neg h2, hl]

theorem walk_link (h1 : ¬ (c = [] ∨ c = ['.'])) (h2 : c ≠ ['.', '.']) (tgt : Str)
    (hl : fs.lookup (cur ++ [c]) = some (.link tgt)) :
    walk miss fs (f + 1) l cur (c :: rest) =
      if l ≥ 255 then .otherErr
      else walk miss fs f (l + 1) (if isAbs tgt then [] else cur) (splitSlash tgt ++ rest) := by
  simp only [walk, if_neg h1, if_neg h2, hl]
  split_ifs <;> rfl

theorem walk_file (h1 : ¬ (c = [] ∨ c = ['.'])) (h2 : c ≠ ['.', '.'])
    (hl : fs.lookup (cur ++ [c]) = some .file) :
    walk miss fs (f + 1) l cur (c :: rest) =
      if rest.all (fun r => r = [] ∨ r = ['.']) then .ok (cur ++ [c]) else .otherErr := by
  simp only [walk, if_neg h1, if_neg h2, hl]

theorem walk_dir (h1 : ¬ (c = [] ∨ c = ['.'])) (h2 : c ≠ ['.', '.'])
    (hl : fs.lookup (cur ++ [c]) = some .dir) :
    walk miss fs (f + 1) l cur (c :: rest) = walk miss fs f l (cur ++ [c]) rest := by
  simp only [walk, if_neg h1, if_neg h2, hl]

end steps

theorem step_cases (fs : FS) (cur : Path) (c : Str) :
    (c = [] ∨ c = ['.']) ∨ c = ['.', '.'] ∨
    (¬ (c = [] ∨ c = ['.']) ∧ c ≠ ['.', '.'] ∧
      (fs.lookup (cur ++ [c]) = none ∨ (∃ tgt, fs.lookup (cur ++ [c]) = some (.link tgt)) ∨
       fs.lookup (cur ++ [c]) = some .file ∨ fs.lookup (cur ++ [c]) = some .dir)) := by
  by_cases h1 : c = [] ∨ c = ['.']
  · exact Or.inl h1
  by_cases h2 : c = ['.', '.']
  · exact Or.inr (Or.inl h2)
  refine Or.inr (Or.inr ⟨h1, h2, ?_⟩)
  cases h : fs.lookup (cur ++ [c]) with
  | none => exact Or.inl rfl
  | some n =>
    cases n with
    | dir => exact Or.inr (Or.inr (Or.inr rfl))
    | file => exact Or.inr (Or.inr (Or.inl rfl))
    | link tgt => exact Or.inr (Or.inl ⟨tgt, rfl⟩)

theorem all_triv_append (a b : List Str) (h : a.all (fun r => decide (r = [] ∨ r = ['.'])) = true) :
    (a ++ b).all (fun r => decide (r = [] ∨ r = ['.'])) = b.all (fun r => decide (r = [] ∨ r = ['.'])) := by
  rw [List.all_append, h, Bool.true_and]

theorem not_all_triv_append (a b : List Str) (h : ¬ a.all (fun r => decide (r = [] ∨ r = ['.'])) = true) :
    ¬ (a ++ b).all (fun r => decide (r = [] ∨ r = ['.'])) = true := by
  rw [List.all_append]; simp only [Bool.and_eq_true]; exact fun h' => h h'.1

/-- what a successful `evalSym`-walk over `t` tells about ANY walk over `t ++ S`: it reaches the
    same place `r` with some fuel left and then continues on `S`, or it ended on a regular file
    (after which only trivial components are accepted). -/
def SplitAt (fs : FS) (f l : Nat) (cur : Path) (t : List Str) (r : Path) (f' l' : Nat) : Prop :=
  (∀ miss S, walk miss fs f l cur (t ++ S) = walk miss fs f' l' r S) ∨
  (∀ miss S, walk miss fs f l cur (t ++ S) =
      if S.all (fun r => r = [] ∨ r = ['.']) then .ok r else .otherErr)

theorem walk_split (fs : FS) (f : Nat) : ∀ (l : Nat) (cur : Path) (t : List Str) (r : Path),
    walk missE fs f l cur t = .ok r →
    ∃ f' l', 1 ≤ f' ∧ f' ≤ f ∧ l ≤ l' ∧ SplitAt fs f l cur t r f' l' := by
  induction f with
  | zero => intro l cur t r h; simp [walk] at h
  | succ f ih =>
    intro l cur t r h
    cases t with
    | nil =>
      rw [walk_nil] at h
      injection h with h; subst h
      exact ⟨f + 1, l, by omega, Nat.le_refl _, Nat.le_refl _, Or.inl (fun miss S => by simp)⟩
    | cons c rest =>
      have lift : ∀ l0 cur0 t0, walk missE fs f l0 cur0 t0 = .ok r → l ≤ l0 →
          (∀ miss S, walk miss fs (f + 1) l cur ((c :: rest) ++ S) = walk miss fs f l0 cur0 (t0 ++ S)) →
          ∃ f' l', 1 ≤ f' ∧ f' ≤ f + 1 ∧ l ≤ l' ∧ SplitAt fs (f + 1) l cur (c :: rest) r f' l' := by
        intro l0 cur0 t0 h0 hl heq
        obtain ⟨f', l', h1, h2, h3, h4⟩ := ih l0 cur0 t0 r h0
        refine ⟨f', l', h1, by omega, by omega, ?_⟩
        rcases h4 with h4 | h4
        · left; intro miss S; rw [heq, h4]
        · right; intro miss S; rw [heq, h4]
      rcases step_cases fs cur c with h1 | h2 | ⟨h1, h2, hn | ⟨tgt, hlk⟩ | hf | hd⟩
      · rw [walk_triv _ _ _ _ _ _ _ h1] at h
        exact lift l cur rest h (Nat.le_refl _) (fun miss S => by rw [List.cons_append, walk_triv _ _ _ _ _ _ _ h1])
      · rw [walk_dotdot _ _ _ _ _ _ _ h2] at h
        exact lift l cur.dropLast rest h (Nat.le_refl _)
          (fun miss S => by rw [List.cons_append, walk_dotdot _ _ _ _ _ _ _ h2])
      · rw [walk_none _ _ _ _ _ _ _ h1 h2 hn] at h
        simp [missE] at h
      · rw [walk_link _ _ _ _ _ _ _ h1 h2 tgt hlk] at h
        by_cases hl : l ≥ 255
        · rw [if_pos hl] at h; cases h
        · rw [if_neg hl] at h
          exact lift (l + 1) _ _ h (by omega)
            (fun miss S => by
              rw [List.cons_append, walk_link _ _ _ _ _ _ _ h1 h2 tgt hlk, if_neg hl, List.append_assoc])
      · rw [walk_file _ _ _ _ _ _ _ h1 h2 hf] at h
        by_cases ha : rest.all (fun r => decide (r = [] ∨ r = ['.'])) = true
        · rw [if_pos ha] at h
          injection h with h; subst h
          refine ⟨f + 1, l, by omega, Nat.le_refl _, Nat.le_refl _, Or.inr (fun miss S => ?_)⟩
          rw [List.cons_append, walk_file _ _ _ _ _ _ _ h1 h2 hf, all_triv_append _ _ ha]
        · rw [if_neg ha] at h; cases h
      · rw [walk_dir _ _ _ _ _ _ _ h1 h2 hd] at h
        exact lift l (cur ++ [c]) rest h (Nat.le_refl _)
          (fun miss S => by rw [List.cons_append, walk_dir _ _ _ _ _ _ _ h1 h2 hd])

/-- a budget/ENOTDIR error on a prefix is an error of every walk over the whole list -/
theorem walk_otherErr_append (fs : FS) (f : Nat) : ∀ (l : Nat) (cur : Path) (t : List Str),
    walk missE fs f l cur t = .otherErr →
    ∀ miss S, walk miss fs f l cur (t ++ S) = .otherErr := by
  induction f with
  | zero => intro l cur t _ miss S; exact walk_zero _ _ _ _ _
  | succ f ih =>
    intro l cur t h miss S
    cases t with
    | nil => rw [walk_nil] at h; cases h
    | cons c rest =>
      rw [List.cons_append]
      rcases step_cases fs cur c with h1 | h2 | ⟨h1, h2, hn | ⟨tgt, hlk⟩ | hf | hd⟩
      · rw [walk_triv _ _ _ _ _ _ _ h1] at h ⊢; exact ih _ _ _ h _ _
      · rw [walk_dotdot _ _ _ _ _ _ _ h2] at h ⊢; exact ih _ _ _ h _ _
      · rw [walk_none _ _ _ _ _ _ _ h1 h2 hn] at h; simp [missE] at h
      · rw [walk_link _ _ _ _ _ _ _ h1 h2 tgt hlk] at h ⊢
        by_cases hl : l ≥ 255
        · rw [if_pos hl]
        · rw [if_neg hl] at h ⊢; rw [← List.append_assoc]; exact ih _ _ _ h _ _
      · rw [walk_file _ _ _ _ _ _ _ h1 h2 hf] at h ⊢
        by_cases ha : rest.all (fun r => decide (r = [] ∨ r = ['.'])) = true
        · rw [if_pos ha] at h; cases h
        · rw [if_neg (not_all_triv_append _ _ ha)]
      · rw [walk_dir _ _ _ _ _ _ _ h1 h2 hd] at h ⊢; exact ih _ _ _ h _ _

/-- more fuel and fewer followed links never change an answer that is not a budget error -/
theorem walk_mono (miss : Path → List Str → Res) (fs : FS) (f : Nat) :
    ∀ (l : Nat) (cur : Path) (t : List Str) (f2 l2 : Nat),
    walk miss fs f l cur t ≠ .otherErr → f ≤ f2 → l2 ≤ l →
    walk miss fs f2 l2 cur t = walk miss fs f l cur t := by
  induction f with
  | zero => intro l cur t f2 l2 h; exact absurd (walk_zero _ _ _ _ _) h
  | succ f ih =>
    intro l cur t f2 l2 h hf hl
    obtain ⟨g, rfl⟩ : ∃ g, f2 = g + 1 := ⟨f2 - 1, by omega⟩
    have hg : f ≤ g := by omega
    cases t with
    | nil => rw [walk_nil, walk_nil]
    | cons c rest =>
      rcases step_cases fs cur c with h1 | h2 | ⟨h1, h2, hn | ⟨tgt, hlk⟩ | hf' | hd⟩
      · rw [walk_triv _ _ _ _ _ _ _ h1] at h ⊢; rw [walk_triv _ _ _ _ _ _ _ h1]; exact ih _ _ _ _ _ h hg hl
      · rw [walk_dotdot _ _ _ _ _ _ _ h2] at h ⊢; rw [walk_dotdot _ _ _ _ _ _ _ h2]; exact ih _ _ _ _ _ h hg hl
      · rw [walk_none _ _ _ _ _ _ _ h1 h2 hn, walk_none _ _ _ _ _ _ _ h1 h2 hn]
      · rw [walk_link _ _ _ _ _ _ _ h1 h2 tgt hlk] at h ⊢
        rw [walk_link _ _ _ _ _ _ _ h1 h2 tgt hlk]
        by_cases hl' : l ≥ 255
        · rw [if_pos hl'] at h; exact absurd rfl h
        · rw [if_neg hl'] at h ⊢
          rw [if_neg (by omega : ¬ l2 ≥ 255)]
          exact ih _ _ _ _ _ h hg (by omega)
      · rw [walk_file _ _ _ _ _ _ _ h1 h2 hf', walk_file _ _ _ _ _ _ _ h1 h2 hf']
      · rw [walk_dir _ _ _ _ _ _ _ h1 h2 hd] at h ⊢; rw [walk_dir _ _ _ _ _ _ _ h1 h2 hd]; exact ih _ _ _ _ _ h hg hl

/-! ### lexical join -/

theorem joinClean_append (base : Path) (a b : List Str) :
    joinClean base (a ++ b) = joinClean (joinClean base a) b := by
  induction a generalizing base with
  | nil => rfl
  | cons c rest ih =>
    simp only [List.cons_append, joinClean]
    split_ifs <;> exact ih _

theorem joinClean_all_triv (base : Path) (S : List Str)
    (h : S.all (fun r => decide (r = [] ∨ r = ['.'])) = true) : joinClean base S = base := by
  induction S with
  | nil => rfl
  | cons c rest ih =>
    rw [List.all_cons, Bool.and_eq_true] at h
    simp only [joinClean, if_pos (of_decide_eq_true h.1)]
    exact ih h.2

/-! ### file systems with directories only -/

theorem walk_alldirs (fs : FS) (hdir : ∀ q n, fs.lookup q = some n → n = .dir) (f : Nat) :
    ∀ (l : Nat) (cur : Path) (t : List Str), t.length < f →
      walk missE fs f l cur t = .ok (joinClean cur t) ∨ walk missE fs f l cur t = .notExist := by
  induction f with
  | zero => intro l cur t h; omega
  | succ f ih =>
    intro l cur t hlen
    cases t with
    | nil => left; rw [walk_nil]; rfl
    | cons c rest =>
      have hlen' : rest.length < f := by simp only [List.length_cons] at hlen; omega
      rcases step_cases fs cur c with h1 | h2 | ⟨h1, h2, hn | ⟨tgt, hlk⟩ | hf | hd⟩
      · rw [walk_triv _ _ _ _ _ _ _ h1]; simp only [joinClean, if_pos h1]; exact ih _ _ _ hlen'
      · rw [walk_dotdot _ _ _ _ _ _ _ h2]
        have : ¬ (c = [] ∨ c = ['.']) := by subst h2; simp
        simp only [joinClean, if_neg this, if_pos h2]; exact ih _ _ _ hlen'
      · right; rw [walk_none _ _ _ _ _ _ _ h1 h2 hn]; rfl
      · cases hdir _ _ hlk
      · cases hdir _ _ hf
      · rw [walk_dir _ _ _ _ _ _ _ h1 h2 hd]
        simp only [joinClean, if_neg h1, if_neg h2]; exact ih _ _ _ hlen'

/-! ### the prefix-retry loop -/

theorem stepFuel_succ : stepFuel = 99999 + 1 := rfl

theorem evalSym_nil (fs : FS) : evalSym fs stepFuel 0 [] [] = .ok [] := by
  rw [stepFuel_succ, evalSym_eq_walk, walk_nil]

theorem resolveFrom_zero (fs : FS) (comps : List Str) :
    resolveFrom fs comps 0 = .ok (joinClean [] comps) := by
  simp only [resolveFrom, evalSym_nil]

theorem resolveFrom_ok (fs : FS) (comps : List Str) (k : Nat) (r : Path)
    (h : evalSym fs stepFuel 0 [] (comps.take k) = .ok r) :
    resolveFrom fs comps k = .ok (joinClean r (comps.drop k)) := by
  cases k with
  | zero =>
    rw [List.take_zero, evalSym_nil] at h
    injection h with h; subst h
    exact resolveFrom_zero fs comps
  | succ k => simp only [resolveFrom, h]

theorem resolveFrom_notExist (fs : FS) (comps : List Str) (k : Nat)
    (h : evalSym fs stepFuel 0 [] (comps.take (k + 1)) = .notExist) :
    resolveFrom fs comps (k + 1) = resolveFrom fs comps k := by
  simp only [resolveFrom, h]

/-- At the cut `k`, provided the next longer prefix (if any) does not exist: either this prefix
    does not exist either, or it resolves to `r` and joining the remainder lexically gives the
    real location. -/
theorem resolve_at (fs : FS) (comps : List Str) (loc : Path)
    (hreal : walk missR fs stepFuel 0 [] comps = .ok loc)
    (hnd : ∀ q tgt, fs.lookup q = some (.link tgt) →
        ∃ r, walk missE fs stepFuel 0 (if isAbs tgt then [] else q.dropLast) (splitSlash tgt) = .ok r)
    (k : Nat)
    (habove : k < comps.length → walk missE fs stepFuel 0 [] (comps.take (k + 1)) = .notExist) :
    walk missE fs stepFuel 0 [] (comps.take k) = .notExist ∨
    ∃ r, walk missE fs stepFuel 0 [] (comps.take k) = .ok r ∧ joinClean r (comps.drop k) = loc := by
  cases hE : walk missE fs stepFuel 0 [] (comps.take k) with
  | otherErr =>
    have := walk_otherErr_append fs _ _ _ _ hE missR (comps.drop k)
    rw [List.take_append_drop, hreal] at this
    cases this
  | notExist => exact Or.inl rfl
  | ok r =>
    refine Or.inr ⟨r, rfl, ?_⟩
    obtain ⟨f', l', h1, h2, _, hs⟩ := walk_split fs _ _ _ _ _ hE
    obtain ⟨g, rfl⟩ : ∃ g, f' = g + 1 := ⟨f' - 1, by omega⟩
    rcases hs with hs | hs
    · have hR := hs missR (comps.drop k)
      rw [List.take_append_drop, hreal] at hR
      cases hd : comps.drop k with
      | nil =>
        rw [hd, walk_nil] at hR
        injection hR with hR
        exact hR.symm
      | cons c S' =>
        rw [hd] at hR
        have hk : k < comps.length := by
          rcases Nat.lt_or_ge k comps.length with h | h
          · exact h
          · rw [List.drop_eq_nil_of_le h] at hd; cases hd
        have htake : comps.take (k + 1) = comps.take k ++ [c] := by
          rw [List.take_add, hd]; rfl
        have hE2 := hs missE [c]
        rw [← htake, habove hk] at hE2
        rcases step_cases fs r c with c1 | c2 | ⟨c1, c2, hn | ⟨tgt, hlk⟩ | hf | hdd⟩
        · rw [walk_triv _ _ _ _ _ _ _ c1] at hE2
          cases g with
          | zero => rw [walk_zero] at hE2; cases hE2
          | succ g => rw [walk_nil] at hE2; cases hE2
        · rw [walk_dotdot _ _ _ _ _ _ _ c2] at hE2
          cases g with
          | zero => rw [walk_zero] at hE2; cases hE2
          | succ g => rw [walk_nil] at hE2; cases hE2
        · rw [walk_none _ _ _ _ _ _ _ c1 c2 hn] at hR
          simp only [missR] at hR
          injection hR with hR
          exact hR.symm
        · rw [walk_link _ _ _ _ _ _ _ c1 c2 tgt hlk] at hE2
          by_cases hl : l' ≥ 255
          · rw [if_pos hl] at hE2; cases hE2
          · rw [if_neg hl, List.append_nil] at hE2
            obtain ⟨r', hr'⟩ := hnd _ _ hlk
            rw [List.dropLast_concat] at hr'
            have := walk_mono missE fs g (l' + 1) _ (splitSlash tgt) stepFuel 0
              (by rw [← hE2]; intro h; cases h) (by omega) (by omega)
            rw [hr', ← hE2] at this
            cases this
        · rw [walk_file _ _ _ _ _ _ _ c1 c2 hf] at hE2
          simp at hE2
        · rw [walk_dir _ _ _ _ _ _ _ c1 c2 hdd] at hE2
          cases g with
          | zero => rw [walk_zero] at hE2; cases hE2
          | succ g => rw [walk_nil] at hE2; cases hE2
    · have hR := hs missR (comps.drop k)
      rw [List.take_append_drop, hreal] at hR
      by_cases ha : (comps.drop k).all (fun r => decide (r = [] ∨ r = ['.'])) = true
      · rw [if_pos ha] at hR
        injection hR with hR
        rw [joinClean_all_triv _ _ ha]; exact hR.symm
      · rw [if_neg ha] at hR; cases hR

/-- prefix-retrying EvalSymlinks agrees with one physical walk with lexical fallback -/
theorem resolveFrom_eq_real (fs : FS) (comps : List Str) (loc : Path)
    (hreal : realWalk fs stepFuel 0 [] comps = .ok loc)
    (hnd : ∀ q tgt, fs.lookup q = some (.link tgt) →
        ∃ r, evalSym fs stepFuel 0 (if isAbs tgt then [] else q.dropLast) (splitSlash tgt) = .ok r) :
    resolveFrom fs comps comps.length = .ok loc := by
  rw [realWalk_eq_walk] at hreal
  simp only [evalSym_eq_walk] at hnd
  have key : ∀ k, k ≤ comps.length →
      (∀ j, k < j → j ≤ comps.length → walk missE fs stepFuel 0 [] (comps.take j) = .notExist) →
      resolveFrom fs comps k = .ok loc := by
    intro k
    induction k with
    | zero =>
      intro _ hab
      rcases resolve_at fs comps loc hreal hnd 0 (fun h => hab 1 (by omega) (by omega)) with h | ⟨r, h, hj⟩
      · rw [List.take_zero, stepFuel_succ, walk_nil] at h; cases h
      · rw [← evalSym_eq_walk] at h
        rw [resolveFrom_ok _ _ _ _ h, hj]
    | succ k ih =>
      intro hk hab
      rcases resolve_at fs comps loc hreal hnd (k + 1)
        (fun h => hab (k + 2) (by omega) (by omega)) with h | ⟨r, h, hj⟩
      · rw [← evalSym_eq_walk] at h
        rw [resolveFrom_notExist _ _ _ h]
        refine ih (by omega) (fun j hj1 hj2 => ?_)
        rcases Nat.lt_or_ge (k + 1) j with h' | h'
        · exact hab j h' hj2
        · have : j = k + 1 := by omega
          subst this; rw [← evalSym_eq_walk]; exact h
      · rw [← evalSym_eq_walk] at h
        rw [resolveFrom_ok _ _ _ _ h, hj]
  exact key comps.length (Nat.le_refl _) (fun j h1 h2 => by omega)

end Sfw.PathGuard
