/-
  Helper lemmas for Props/C03Sem.lean: algebra of `evalBinOp` (commutativity, the opposite test) and
  the simulation between a function and its virtual view.  PROOF ONLY.
-/
import SfwModel.Model.Canon.Sem
import SfwModel.Model.ZipEquiv
import SfwModel.Props.C03
namespace Sfw.Canon.Sem
open Sfw.Canon

/-! ### comparisons of byte strings -/

theorem bytesLe_eq_not_bytesLt : ∀ (a b : List Nat), bytesLe a b = !bytesLt b a
  | [], [] => by simp [bytesLe, bytesLt]
  | [], _ :: _ => by simp [bytesLe, bytesLt]
  | _ :: _, [] => by simp [bytesLe, bytesLt]
  | x :: xs, y :: ys => by
    have ih := bytesLe_eq_not_bytesLt xs ys
    simp only [bytesLe, bytesLt]
    by_cases h1 : x < y
    · have h2 : ¬ y < x := by omega
      simp [h1, h2]
    · by_cases h2 : y < x
      · simp [h1, h2]
      · simp [h1, h2, ih]

theorem bytesLt_eq_not_bytesLe (a b : List Nat) : bytesLt a b = !bytesLe b a := by
  rw [bytesLe_eq_not_bytesLt]; simp

/-! ### commutativity -/

/-! ### commutativity -/

theorem evalCmp_eq_comm (a b : Value) : evalCmp "==" a b = evalCmp "==" b a := by
  cases a <;> cases b <;> simp [evalCmp, isCmpOp]
  · exact BEq.comm
  · exact BEq.comm
  · exact BEq.comm
  · rename_i x y
    cases x <;> cases y <;> simp
    exact BEq.comm

theorem evalCmp_ne_comm (a b : Value) : evalCmp "!=" a b = evalCmp "!=" b a := by
  cases a <;> cases b <;> simp [evalCmp]
  · exact bne_comm
  · exact bne_comm
  · exact bne_comm
  · rename_i x y
    cases x <;> cases y <;> simp
    exact bne_comm

theorem bitOp_comm (g : Nat → Nat → Nat) (hg : ∀ x y, g x y = g y x) (ty : IntTy) (a b : Int) :
    bitOp g ty a b = bitOp g ty b a := by
  simp only [bitOp, hg (toBits ty a)]

theorem evalArith_comm (op : String) (h : op = "+" ∨ op = "*" ∨ op = "&" ∨ op = "|" ∨ op = "^")
    (ty : IntTy) (a b : Int) : evalArith op ty a b = evalArith op ty b a := by
  rcases h with h | h | h | h | h <;> subst h <;> simp [evalArith]
  · rw [Int.add_comm]
  · rw [Int.mul_comm]
  · exact bitOp_comm _ Nat.and_comm _ _ _
  · exact bitOp_comm _ Nat.or_comm _ _ _
  · exact bitOp_comm _ Nat.xor_comm _ _ _

/-- comparison operators `==`, `!=` -/
theorem evalBinOp_comm_cmp (op : String) (h : op = "==" ∨ op = "!=") (rt t0 t1 : TFlags) (a b : Value) :
    evalBinOp op rt t0 t1 a b = evalBinOp op rt t1 t0 b a := by
  have hc : evalCmp op a b = evalCmp op b a := by
    rcases h with h | h <;> subst h
    · exact evalCmp_eq_comm a b
    · exact evalCmp_ne_comm a b
  have hi : isCmpOp op = true := by rcases h with h | h <;> subst h <;> simp [isCmpOp]
  simp only [evalBinOp, hi, hc, Bool.and_comm (a.fits t0)]
  rfl

theorem evalBinOp_comm_arith (op : String) (h : op = "*" ∨ op = "&" ∨ op = "|" ∨ op = "^")
    (rt t0 t1 : TFlags) (a b : Value) :
    evalBinOp op rt t0 t1 a b = evalBinOp op rt t1 t0 b a := by
  have hi : isCmpOp op = false := by rcases h with h | h | h | h <;> subst h <;> simp [isCmpOp]
  have hp : (op == "+") = false := by rcases h with h | h | h | h <;> subst h <;> simp
  have ha := evalArith_comm op (Or.inr h)
  simp only [evalBinOp, hi, Bool.and_comm (a.fits t0)]
  cases a <;> cases b <;> simp [ha, hp]

theorem evalBinOp_comm_add (rt t0 t1 : TFlags) (a b : Value)
    (hs : ∀ x y, a = .str x → b = .str y → (a.fits t0 && b.fits t1 && (Value.str []).fits rt) = false) :
    evalBinOp "+" rt t0 t1 a b = evalBinOp "+" rt t1 t0 b a := by
  have hi : isCmpOp "+" = false := by simp [isCmpOp]
  have ha := evalArith_comm "+" (Or.inl rfl)
  simp only [evalBinOp, hi, Bool.and_comm (a.fits t0)]
  cases a <;> cases b <;> simp [ha]
  rename_i x y
  have := hs x y rfl rfl
  clear hs
  generalize Value.fits t0 (Value.str x) = p at *
  generalize Value.fits t1 (Value.str y) = q at *
  generalize Value.fits rt (Value.str []) = r at *
  cases p <;> cases q <;> cases r <;> simp at this ⊢

/-! ### the opposite test -/

/-- the result of a comparison, negated (`negRes` of Props/C03Sem) -/
def negCmp : Res Value → Res Value
  | .ok (.bool c) => .ok (.bool !c)
  | r => r

theorem str_not_fits_numeric (t : TFlags) (x : List Nat)
    (h : t.isInteger = true ∨ t.isFloat = true ∨ t.isComplex = true) : (Value.str x).fits t = false := by
  simp only [Value.fits]
  rcases h with h | h | h <;> simp [h]

theorem safe_fits (t : TFlags) (h : isSafeToSwap t = true) (a : Value) (hf : a.fits t = true) :
    (∃ x, a = .int x) ∨ (∃ x, a = .str x) := by
  simp only [isSafeToSwap, Bool.or_eq_true] at h
  cases a <;> simp [Value.fits] at hf ⊢ <;> rcases h with h | h <;> simp_all

theorem negCmp_if (rt : TFlags) (r r' : Bool) (h : r = !r') :
    (if (Value.bool r).fits rt = true then Res.ok (Value.bool r) else Res.stuck) =
      negCmp (if (Value.bool r').fits rt = true then Res.ok (Value.bool r') else Res.stuck) := by
  subst h
  have hb : (Value.bool !r').fits rt = (Value.bool r').fits rt := rfl
  rw [hb]
  split <;> rfl

theorem evalBinOp_swap (op newOp : String) (rt t0 t1 : TFlags) (a b : Value)
    (hop : (op = ">=" ∧ newOp = "<") ∨ (op = ">" ∧ newOp = "<="))
    (h0 : isSafeToSwap t0 = true) (h1 : isSafeToSwap t1 = true) :
    evalBinOp newOp rt t0 t1 a b = negCmp (evalBinOp op rt t0 t1 a b) := by
  by_cases hf : (a.fits t0 && b.fits t1) = true
  · simp only [Bool.and_eq_true] at hf
    rcases safe_fits t0 h0 a hf.1 with ⟨x, rfl⟩ | ⟨x, rfl⟩ <;>
    rcases safe_fits t1 h1 b hf.2 with ⟨y, rfl⟩ | ⟨y, rfl⟩ <;>
    rcases hop with ⟨rfl, rfl⟩ | ⟨rfl, rfl⟩ <;>
    simp only [evalBinOp, hf.1, hf.2] <;>
    simp only [isCmpOp, evalCmp, String.reduceBEq, Bool.or_true, Bool.or_false,
      Bool.and_self, Bool.not_true, if_true, if_false, Bool.false_eq_true]
    · exact negCmp_if _ _ _ (by by_cases h : x < y <;> simp [h] <;> omega)
    · exact negCmp_if _ _ _ (by by_cases h : x ≤ y <;> simp [h] <;> omega)
    · rfl
    · rfl
    · rfl
    · rfl
    · exact negCmp_if _ _ _ (bytesLt_eq_not_bytesLe _ _)
    · exact negCmp_if _ _ _ (bytesLe_eq_not_bytesLt _ _)
  · simp only [evalBinOp, hf]
    simp [negCmp]

theorem evalBinOp_comm_of_isCommutative (i : Instr) (h : isCommutative i = true) (a b : Value) :
    evalBinOp i.op i.tf (i.opTf 0) (i.opTf 1) a b = evalBinOp i.op i.tf (i.opTf 1) (i.opTf 0) b a := by
  rcases C03_commutative_guard i h with ⟨hp, hn⟩ | h | h | h | h | h | h
  · rw [hp]
    apply evalBinOp_comm_add
    intro x y ha _
    subst ha
    rw [str_not_fits_numeric _ _ hn]; rfl
  · exact evalBinOp_comm_arith _ (Or.inl h) _ _ _ _ _
  · exact evalBinOp_comm_cmp _ (Or.inl h) _ _ _ _ _
  · exact evalBinOp_comm_cmp _ (Or.inr h) _ _ _ _ _
  · exact evalBinOp_comm_arith _ (Or.inr (Or.inl h)) _ _ _ _ _
  · exact evalBinOp_comm_arith _ (Or.inr (Or.inr (Or.inl h))) _ _ _ _ _
  · exact evalBinOp_comm_arith _ (Or.inr (Or.inr (Or.inr h))) _ _ _ _ _



/-! ### environments of the function and of its view -/

/-- an optional value with a boolean negated -/
def negOpt : Option Value → Option Value
  | some (.bool c) => some (.bool !c)
  | v => v

/-- `sel id`: instruction `id` is a comparison whose operator the view replaces.  The two
    environments have the same shape, agree outside `sel` and are negations of each other on `sel`. -/
def EnvRel (sel : Nat → Bool) (env env' : Env) : Prop :=
  env'.size = env.size ∧
  ∀ id, env'.getD id none = if sel id then negOpt (env.getD id none) else env.getD id none

theorem getD_setIfInBounds (env : Env) (i j : Nat) (v : Option Value) :
    (env.setIfInBounds i v).getD j none = if i = j ∧ i < env.size then v else env.getD j none := by
  simp only [Array.getD_eq_getD_getElem?, Array.getElem?_setIfInBounds]
  by_cases h : i = j
  · subst h
    by_cases h2 : i < env.size
    · simp [h2]
    · simp [h2]
  · simp [h]

theorem EnvRel.refl_replicate (sel : Nat → Bool) (n : Nat) :
    EnvRel sel (Array.replicate n none) (Array.replicate n none) := by
  refine ⟨rfl, fun id => ?_⟩
  have : (Array.replicate n (none : Option Value)).getD id none = none := by
    simp only [Array.getD_eq_getD_getElem?, Array.getElem?_replicate]
    split <;> rfl
  rw [this]; split <;> rfl

theorem EnvRel.envSet {sel : Nat → Bool} {env env' : Env} (h : EnvRel sel env env') (id : Nat)
    (v v' : Option Value) (hv : v' = if sel id then negOpt v else v) :
    EnvRel sel (envSet env id v) (envSet env' id v') := by
  cases v with
  | none =>
    have : v' = none := by rw [hv]; split <;> rfl
    subst this
    exact h
  | some a =>
    have hv' : ∃ a', v' = some a' := by
      rw [hv]; split
      · cases a <;> exact ⟨_, rfl⟩
      · exact ⟨_, rfl⟩
    obtain ⟨a', rfl⟩ := hv'
    simp only [Sem.envSet]
    refine ⟨by simp [h.1], fun j => ?_⟩
    rw [getD_setIfInBounds, getD_setIfInBounds, h.1, h.2 j]
    by_cases hc : id = j ∧ id < env.size
    · rw [if_pos hc, if_pos hc, hv, hc.1]
    · rw [if_neg hc, if_neg hc]

/-- the operand does not read a replaced comparison -/
def NoSel (sel : Nat → Bool) (o : Operand) : Prop := ∀ d, o.val = some (.instr d) → sel d = false

theorem evalOperand_agree {sel : Nat → Bool} {env env' : Env} (h : EnvRel sel env env') (args : List Value)
    (o : Operand) (ho : NoSel sel o) : evalOperand args env' o = evalOperand args env o := by
  unfold evalOperand
  split
  · rename_i id hv
    rw [h.2 id, ho id hv]; rfl
  · rfl
  · rfl
  · rfl

theorem evalOperand_sel {sel : Nat → Bool} {env env' : Env} (h : EnvRel sel env env') (args : List Value)
    (o : Operand) (d : Nat) (hv : o.val = some (.instr d)) (hs : sel d = true) :
    evalOperand args env' o = negOpt (evalOperand args env o) := by
  unfold evalOperand
  simp only [hv]
  rw [h.2 d, hs]; rfl

theorem opv_agree {sel : Nat → Bool} {env env' : Env} (h : EnvRel sel env env') (args : List Value)
    (ops : List Operand) (ho : ∀ o ∈ ops, NoSel sel o) (k : Nat) :
    (ops[k]?).bind (evalOperand args env') = (ops[k]?).bind (evalOperand args env) := by
  cases hk : ops[k]? with
  | none => rfl
  | some o =>
    simp only [Option.bind_some]
    exact evalOperand_agree h args o (ho o (List.mem_of_getElem? hk))

theorem evalInstr_congr (args : List Value) (env env' : Env) (i : Instr)
    (h : ∀ k : Nat, (i.ops[k]?).bind (evalOperand args env') = (i.ops[k]?).bind (evalOperand args env)) :
    evalInstr args env' i = evalInstr args env i := by
  unfold evalInstr
  simp only [h]

theorem evalInstr_debugRef (args : List Value) (env : Env) (i : Instr) (h : i.kind = .DebugRef) :
    evalInstr args env i = .ok none := by
  unfold evalInstr
  simp only [h]

theorem execReturn_agree {sel : Nat → Bool} {env env' : Env} (h : EnvRel sel env env') (args : List Value) :
    ∀ (ops : List Operand), (∀ o ∈ ops, NoSel sel o) → execReturn args env' ops = execReturn args env ops
  | [], _ => rfl
  | o :: os, ho => by
    simp only [execReturn]
    rw [evalOperand_agree h args o (ho o (List.mem_cons_self ..)),
      execReturn_agree h args os (fun o' ho' => ho o' (List.mem_cons_of_mem _ ho'))]

/-! ### a BinOp and its two views -/

/-- the value of a BinOp, from the values of its operands -/
def binOpRes (op : String) (rt t0 t1 : TFlags) : Option Value → Option Value → Res (Option Value)
  | some a, some b =>
    (match evalBinOp op rt t0 t1 a b with
     | .ok v => .ok (some v)
     | .panic => .panic
     | .stuck => .stuck)
  | _, _ => .stuck

theorem evalInstr_binOp (args : List Value) (env : Env) (i : Instr) (h : i.kind = .BinOp) :
    evalInstr args env i = binOpRes i.op i.tf (i.opTf 0) (i.opTf 1)
      ((i.ops[0]?).bind (evalOperand args env)) ((i.ops[1]?).bind (evalOperand args env)) := by
  unfold evalInstr binOpRes
  simp only [h]
  generalize (i.ops[0]?).bind (evalOperand args env) = x
  generalize (i.ops[1]?).bind (evalOperand args env) = y
  cases x <;> cases y <;> rfl

/-- the outcome of an instruction, with a boolean value negated -/
def negStep : Res (Option Value) → Res (Option Value)
  | .ok v => .ok (negOpt v)
  | r => r

theorem binOpRes_swap (op newOp : String) (rt t0 t1 : TFlags) (x y : Option Value)
    (hop : (op = ">=" ∧ newOp = "<") ∨ (op = ">" ∧ newOp = "<="))
    (h0 : isSafeToSwap t0 = true) (h1 : isSafeToSwap t1 = true) :
    binOpRes newOp rt t0 t1 x y = negStep (binOpRes op rt t0 t1 x y) := by
  cases x with
  | none => rfl
  | some a =>
    cases y with
    | none => rfl
    | some b =>
      simp only [binOpRes]
      rw [evalBinOp_swap op newOp rt t0 t1 a b hop h0 h1]
      cases evalBinOp op rt t0 t1 a b with
      | ok v => cases v <;> rfl
      | panic => rfl
      | stuck => rfl

theorem binOpRes_comm (i : Instr) (hc : isCommutative i = true) (x y : Option Value) :
    binOpRes i.op i.tf (i.opTf 1) (i.opTf 0) y x = binOpRes i.op i.tf (i.opTf 0) (i.opTf 1) x y := by
  cases x with
  | none => cases y <;> rfl
  | some a =>
    cases y with
    | none => rfl
    | some b =>
      simp only [binOpRes]
      rw [evalBinOp_comm_of_isCommutative i hc a b]


/-! ### what the view does to an instruction, and to a block -/

/-- what the view `vw` does to one instruction of a block -/
structure InstrOK (sel : Nat → Bool) (vw : Instr → Instr) (j : Instr) : Prop where
  kind : (vw j).kind = j.kind
  id : (vw j).id = j.id
  nonBin : j.kind ≠ .BinOp → vw j = j ∧ sel j.id = false
  reads : j.kind ≠ .DebugRef → j.kind ≠ .If → ∀ o ∈ j.ops, NoSel sel o
  bin : j.kind = .BinOp →
    (sel j.id = true ∧ ∃ newOp, vw j = { j with op := newOp } ∧
       ((j.op = ">=" ∧ newOp = "<") ∨ (j.op = ">" ∧ newOp = "<=")) ∧
       isSafeToSwap (j.opTf 0) = true ∧ isSafeToSwap (j.opTf 1) = true) ∨
    (sel j.id = false ∧ (vw j = j ∨
       (isCommutative j = true ∧ ∃ x y, j.ops = [x, y] ∧ vw j = { j with ops := [y, x] })))

theorem evalInstr_view {sel : Nat → Bool} {vw : Instr → Instr} {j : Instr} (hj : InstrOK sel vw j)
    {env env' : Env} (h : EnvRel sel env env') (args : List Value) (hIf : j.kind ≠ .If) :
    evalInstr args env' (vw j) = if sel j.id then negStep (evalInstr args env j) else evalInstr args env j := by
  by_cases hb : j.kind = .BinOp
  · have hd : j.kind ≠ .DebugRef := by rw [hb]; simp
    have hops := opv_agree h args j.ops (hj.reads hd hIf)
    have hkv : (vw j).kind = .BinOp := hj.kind.trans hb
    rw [evalInstr_binOp args env' (vw j) hkv, evalInstr_binOp args env j hb]
    rcases hj.bin hb with ⟨hs, newOp, hvw, hop, h0, h1⟩ | ⟨hs, hvw | ⟨hc, x, y, hxy, hvw⟩⟩
    · rw [hs, if_pos rfl, hvw]
      show binOpRes newOp j.tf (j.opTf 0) (j.opTf 1) _ _ = _
      rw [hops 0, hops 1]
      exact binOpRes_swap j.op newOp j.tf _ _ _ _ hop h0 h1
    · rw [hs, hvw, hops 0, hops 1]; rfl
    · rw [hs, hvw]
      have e0 : j.opTf 0 = x.tf := by simp [Instr.opTf, hxy]
      have e1 : j.opTf 1 = y.tf := by simp [Instr.opTf, hxy]
      have hx := hops 0
      have hy := hops 1
      rw [hxy] at hx hy
      simp only [List.getElem?_cons_zero, List.getElem?_cons_succ, Option.bind_some] at hx hy
      show binOpRes j.op j.tf y.tf x.tf (evalOperand args env' y) (evalOperand args env' x) = _
      rw [hxy]
      simp only [List.getElem?_cons_zero, List.getElem?_cons_succ, Option.bind_some, Bool.false_eq_true, if_false]
      rw [hx, hy, ← e0, ← e1]
      exact binOpRes_comm j hc _ _
  · obtain ⟨hvw, hs⟩ := hj.nonBin hb
    rw [hvw, hs]
    simp only [Bool.false_eq_true, if_false]
    by_cases hd : j.kind = .DebugRef
    · rw [evalInstr_debugRef _ _ _ hd, evalInstr_debugRef _ _ _ hd]
    · exact evalInstr_congr args env env' j (opv_agree h args j.ops (hj.reads hd hIf))

/-- how the exits of a block of the function and of the view correspond -/
def ExitRel (sel : Nat → Bool) : BlockExit → BlockExit → Prop
  | .goto b e, .goto b' e' => b' = b ∧ EnvRel sel e e'
  | .done o, .done o' => o' = o
  | _, _ => False

theorem execBody_phi (args : List Value) (succs : List Nat) (i : Instr) (rest : List Instr) (env : Env)
    (h : i.kind = .Phi) : execBody args succs (i :: rest) env = execBody args succs rest env := by
  simp only [execBody, h] <;> rfl

theorem execBody_if (args : List Value) (succs : List Nat) (i : Instr) (rest : List Instr) (env : Env)
    (h : i.kind = .If) : execBody args succs (i :: rest) env =
      (match (i.ops[0]?).bind (evalOperand args env), succs with
       | some (.bool c), [s0, s1] => .goto (if c then s0 else s1) env
       | _, _ => .done .stuck) := by
  simp only [execBody, h] <;> rfl

theorem execBody_jump (args : List Value) (succs : List Nat) (i : Instr) (rest : List Instr) (env : Env)
    (h : i.kind = .Jump) : execBody args succs (i :: rest) env =
      (match succs with
       | [s] => .goto s env
       | _ => .done .stuck) := by
  simp only [execBody, h] <;> rfl

theorem execBody_return (args : List Value) (succs : List Nat) (i : Instr) (rest : List Instr) (env : Env)
    (h : i.kind = .Return) : execBody args succs (i :: rest) env =
      (match execReturn args env i.ops with
       | some vs => .done (.ret vs)
       | none => .done .stuck) := by
  simp only [execBody, h] <;> rfl

theorem execBody_panic (args : List Value) (succs : List Nat) (i : Instr) (rest : List Instr) (env : Env)
    (h : i.kind = .Panic) : execBody args succs (i :: rest) env = .done .panic := by
  simp only [execBody, h] <;> rfl

theorem execBody_other (args : List Value) (succs : List Nat) (i : Instr) (rest : List Instr) (env : Env)
    (h1 : i.kind ≠ .Phi) (h2 : i.kind ≠ .If) (h3 : i.kind ≠ .Jump) (h4 : i.kind ≠ .Return) (h5 : i.kind ≠ .Panic) :
    execBody args succs (i :: rest) env =
      (match evalInstr args env i with
       | .ok v => execBody args succs rest (envSet env i.id v)
       | .panic => .done .panic
       | .stuck => .done .stuck) := by
  cases hk : i.kind <;> first | exact absurd hk h1 | exact absurd hk h2 | exact absurd hk h3 | exact absurd hk h4 | exact absurd hk h5 | (simp only [execBody, hk]; rfl)


/-- what the view does to a block with successors `succs` (`succs'` in the view) -/
structure BlockOK (sel : Nat → Bool) (vw : Instr → Instr) (succs succs' : List Nat) (instrs : List Instr) :
    Prop where
  instr : ∀ j ∈ instrs, InstrOK sel vw j
  hsuccs : succs' = succs ∨ ∃ s0 s1, succs = [s0, s1] ∧ succs' = [s1, s0]
  branch : ∀ j ∈ instrs, j.kind = .If →
    (∃ o d s0 s1, j.ops[0]? = some o ∧ o.val = some (.instr d) ∧ sel d = true ∧
        succs = [s0, s1] ∧ succs' = [s1, s0]) ∨
    ((∀ o, j.ops[0]? = some o → NoSel sel o) ∧ succs' = succs)

theorem BlockOK.tail {sel : Nat → Bool} {vw : Instr → Instr} {succs succs' : List Nat} {j : Instr}
    {rest : List Instr} (h : BlockOK sel vw succs succs' (j :: rest)) : BlockOK sel vw succs succs' rest :=
  ⟨fun i hi => h.instr i (List.mem_cons_of_mem _ hi), h.hsuccs,
   fun i hi => h.branch i (List.mem_cons_of_mem _ hi)⟩

theorem execBody_sim {sel : Nat → Bool} {vw : Instr → Instr} {succs succs' : List Nat} (args : List Value) :
    ∀ (instrs : List Instr) (env env' : Env), BlockOK sel vw succs succs' instrs → EnvRel sel env env' →
      ExitRel sel (execBody args succs instrs env) (execBody args succs' (instrs.map vw) env')
  | [], _, _, _, _ => by simp only [List.map_nil, execBody, ExitRel]
  | j :: rest, env, env', hB, hE => by
    have hj := hB.instr j (List.mem_cons_self ..)
    have ih := fun e e' => execBody_sim args rest e e' hB.tail
    rw [List.map_cons]
    by_cases h1 : j.kind = .Phi
    · rw [execBody_phi _ _ _ _ _ h1, execBody_phi _ _ _ _ _ (hj.kind.trans h1)]
      exact ih env env' hE
    by_cases h2 : j.kind = .If
    · have hvw : vw j = j := (hj.nonBin (by rw [h2]; simp)).1
      rw [execBody_if _ _ _ _ _ h2, hvw, execBody_if _ _ _ _ _ h2]
      rcases hB.branch j (List.mem_cons_self ..) h2 with ⟨o, d, s0, s1, ho, hd, hs, hs0, hs1⟩ | ⟨hno, hs⟩
      · rw [ho, hs0, hs1]
        simp only [Option.bind_some]
        rw [evalOperand_sel hE args o d hd hs]
        cases evalOperand args env o with
        | none => simp only [negOpt, ExitRel]
        | some v =>
          cases v <;> simp only [negOpt, ExitRel]
          rename_i c
          refine ⟨?_, hE⟩
          cases c <;> rfl
      · rw [hs]
        have : (j.ops[0]?).bind (evalOperand args env') = (j.ops[0]?).bind (evalOperand args env) := by
          cases ho : j.ops[0]? with
          | none => rfl
          | some o => exact evalOperand_agree hE args o (hno o ho)
        rw [this]
        split
        · exact ⟨rfl, hE⟩
        · trivial
    by_cases h3 : j.kind = .Jump
    · have hvw : vw j = j := (hj.nonBin (by rw [h3]; simp)).1
      rw [execBody_jump _ _ _ _ _ h3, hvw, execBody_jump _ _ _ _ _ h3]
      rcases hB.hsuccs with hs | ⟨s0, s1, hs0, hs1⟩
      · rw [hs]
        split
        · exact ⟨rfl, hE⟩
        · trivial
      · rw [hs0, hs1]; trivial
    by_cases h4 : j.kind = .Return
    · have hvw : vw j = j := (hj.nonBin (by rw [h4]; simp)).1
      rw [execBody_return _ _ _ _ _ h4, hvw, execBody_return _ _ _ _ _ h4,
        execReturn_agree hE args j.ops (hj.reads (by rw [h4]; simp) h2)]
      split <;> rfl
    by_cases h5 : j.kind = .Panic
    · rw [execBody_panic _ _ _ _ _ h5, execBody_panic _ _ _ _ _ (hj.kind.trans h5)]
      rfl
    · rw [execBody_other _ _ _ _ _ h1 h2 h3 h4 h5,
        execBody_other _ _ _ _ _ (hj.kind ▸ h1) (hj.kind ▸ h2) (hj.kind ▸ h3) (hj.kind ▸ h4) (hj.kind ▸ h5),
        evalInstr_view hj hE args h2, hj.id]
      cases hr : evalInstr args env j with
      | ok v =>
        by_cases hs : sel j.id = true
        · rw [if_pos hs]
          exact ih _ _ (hE.envSet j.id v (negOpt v) (by rw [if_pos hs]))
        · rw [if_neg hs]
          exact ih _ _ (hE.envSet j.id v v (by rw [if_neg hs]))
      | panic =>
        have : (if sel j.id = true then negStep (Res.panic : Res (Option Value)) else Res.panic) = Res.panic := by
          split <;> rfl
        rw [this]; exact rfl
      | stuck =>
        have : (if sel j.id = true then negStep (Res.stuck : Res (Option Value)) else Res.stuck) = Res.stuck := by
          split <;> rfl
        rw [this]; exact rfl


def OptEnvRel (sel : Nat → Bool) : Option Env → Option Env → Prop
  | some e, some e' => EnvRel sel e e'
  | none, none => True
  | _, _ => False

theorem execPhis_sim {sel : Nat → Bool} {vw : Instr → Instr} (args : List Value) (k : Nat) {old old' : Env}
    (hO : EnvRel sel old old') :
    ∀ (instrs : List Instr) (new new' : Env), (∀ j ∈ instrs, InstrOK sel vw j) → EnvRel sel new new' →
      OptEnvRel sel (execPhis args k old instrs new) (execPhis args k old' (instrs.map vw) new')
  | [], _, _, _, hN => by simpa only [List.map_nil, execPhis, OptEnvRel] using hN
  | j :: rest, new, new', hI, hN => by
    have hj := hI j (List.mem_cons_self ..)
    have ih := fun e e' => execPhis_sim args k hO rest e e' (fun i hi => hI i (List.mem_cons_of_mem _ hi))
    rw [List.map_cons]
    by_cases h1 : j.kind = .Phi
    · have hnb : j.kind ≠ .BinOp := by rw [h1]; simp
      obtain ⟨hvw, hs⟩ := hj.nonBin hnb
      have hops := opv_agree hO args j.ops (hj.reads (by rw [h1]; simp) (by rw [h1]; simp)) k
      rw [hvw]
      simp only [execPhis, h1, bne_self_eq_false, Bool.false_eq_true, if_false]
      rw [hops]
      cases (j.ops[k]?).bind (evalOperand args old) with
      | none => trivial
      | some v =>
        exact ih _ _ (hN.envSet j.id (some v) (some v) (by rw [hs]; rfl))
    · have h1' : (vw j).kind ≠ .Phi := hj.kind ▸ h1
      have e1 : (j.kind != Kind.Phi) = true := by simpa using h1
      have e2 : ((vw j).kind != Kind.Phi) = true := by simpa using h1'
      simp only [execPhis, e1, e2, if_true]
      exact ih _ _ hN

/-! ### the whole function -/

theorem optEnv_tail {sel : Nat → Bool} (r r' : Option Env) (g g' : Env → Outcome) (h : OptEnvRel sel r r')
    (hg : ∀ e e', EnvRel sel e e' → g' e' = g e) :
    (match (generalizing := false) r' with | none => Outcome.stuck | some e => g' e) =
      (match (generalizing := false) r with | none => Outcome.stuck | some e => g e) := by
  cases r <;> cases r' <;> simp only [OptEnvRel] at h
  · rfl
  · exact hg _ _ h

theorem exit_tail {sel : Nat → Bool} (x x' : BlockExit) (g g' : Nat → Env → Outcome) (h : ExitRel sel x x')
    (hg : ∀ nb e e', EnvRel sel e e' → g' nb e' = g nb e) :
    (match (generalizing := false) x' with | .done o => o | .goto nb e => g' nb e) =
      (match (generalizing := false) x with | .done o => o | .goto nb e => g nb e) := by
  cases x <;> cases x' <;> simp only [ExitRel] at h
  · obtain ⟨rfl, h⟩ := h
    exact hg _ _ _ h
  · exact h

theorem runFrom_sim {sel : Nat → Bool} {vw : Instr → Instr} (f f' : Func) (sv : Block → List Nat)
    (hblocks : ∀ b : Nat, f'.blocks[b]? =
      (f.blocks[b]?).map (fun bl => { bl with succs := sv bl, instrs := bl.instrs.map vw }))
    (hok : ∀ (b : Nat) (bl : Block), f.blocks[b]? = some bl → BlockOK sel vw bl.succs (sv bl) bl.instrs)
    (args : List Value) :
    ∀ (fuel : Nat) (prev : Option Nat) (b : Nat) (env env' : Env), EnvRel sel env env' →
      runFrom f' args fuel prev b env' = runFrom f args fuel prev b env
  | 0, _, _, _, _, _ => rfl
  | fuel + 1, prev, b, env, env', hE => by
    simp only [runFrom, hblocks b]
    cases hb : f.blocks[b]? with
    | none => rfl
    | some bl =>
      have hB := hok b bl hb
      simp only [Option.map_some]
      have hphi : OptEnvRel sel
          (match prev with
           | none => some env
           | some p =>
             match indexOf? bl.preds p with
             | some k => execPhis args k env bl.instrs env
             | none => none)
          (match prev with
           | none => some env'
           | some p =>
             match indexOf? bl.preds p with
             | some k => execPhis args k env' (bl.instrs.map vw) env'
             | none => none) := by
        cases prev with
        | none => exact hE
        | some p =>
          simp only
          cases indexOf? bl.preds p with
          | none => trivial
          | some k => exact execPhis_sim args k hE bl.instrs env env' hB.instr hE
      refine optEnv_tail _ _ _ _ hphi (fun e e' hE1 => ?_)
      exact exit_tail _ _ _ _ (execBody_sim args bl.instrs e e' hB hE1)
        (fun nb e2 e2' hE2 => runFrom_sim f f' sv hblocks hok args fuel (some b) nb e2 e2' hE2)


/-! ### what `computeVirtualControlFlow` selects -/

theorem vsob_spec (f : Func) (b : Block) (id : Nat) (newOp : String)
    (h : virtualSwapOfBlock f b = some (id, newOp)) :
    ∃ ifInstr binOp, b.instrs.getLast? = some ifInstr ∧ ifInstr.kind = .If ∧
      (ifInstr.opVal 0).bind f.valInstr? = some binOp ∧ binOp.kind = .BinOp ∧
      isSafeToSwap (binOp.opTf 0) = true ∧ isSafeToSwap (binOp.opTf 1) = true ∧
      (∀ r ∈ binOp.refs, r.2 = .DebugRef ∨ r.1 = ifInstr.id) ∧
      ((binOp.op = ">=" ∧ newOp = "<") ∨ (binOp.op = ">" ∧ newOp = "<=")) ∧
      b.succs.length = 2 ∧ binOp.id = id := by
  obtain ⟨ifInstr, binOp, h1, h2, h3, h4, h5, h6, h7⟩ := C03_swap_guard f b id newOp h
  refine ⟨ifInstr, binOp, h1, h2, h3, h4, h5, h6, h7, ?_⟩
  unfold virtualSwapOfBlock at h
  simp only [h1, h3] at h
  have e2 : (ifInstr.kind != Kind.If) = false := by simp [h2]
  have e4 : (binOp.kind != Kind.BinOp) = false := by simp [h4]
  simp only [e2, e4, h5, h6, Bool.false_eq_true, if_false, Bool.and_self, Bool.not_true] at h
  split at h
  · exact absurd h (by simp)
  · by_cases hge : binOp.op = ">="
    · simp only [hge, beq_self_eq_true, if_true] at h
      split at h
      · exact absurd h (by simp)
      · rename_i hl
        simp only [Option.some.injEq, Prod.mk.injEq] at h
        exact ⟨Or.inl ⟨hge, h.2.symm⟩, by simpa using hl, h.1⟩
    · have e : (binOp.op == ">=") = false := by simpa using hge
      simp only [e, Bool.false_eq_true, if_false] at h
      by_cases hgt : binOp.op = ">"
      · simp only [hgt, beq_self_eq_true, if_true] at h
        split at h
        · exact absurd h (by simp)
        · rename_i hl
          simp only [Option.some.injEq, Prod.mk.injEq] at h
          exact ⟨Or.inr ⟨hgt, h.2.symm⟩, by simpa using hl, h.1⟩
      · have e' : (binOp.op == ">") = false := by simpa using hgt
        simp only [e', Bool.false_eq_true, if_false] at h
        exact absurd h (by simp)

/-- one step of the fold of `computeVirtualControlFlow` -/
def vcfStep (f : Func) (s : VirtualCF) (b : Block) : VirtualCF :=
  match virtualSwapOfBlock f b with
  | some (id, op) =>
    { swappedBlocks := s.swappedBlocks ++ [b.idx],
      virtualBinOps := (s.virtualBinOps.filter (fun e => e.1 != id)) ++ [(id, op)] }
  | none => s

theorem computeVirtualControlFlow_eq (f : Func) :
    computeVirtualControlFlow f = f.blocks.toList.foldl (vcfStep f) { swappedBlocks := [], virtualBinOps := [] } := by
  unfold computeVirtualControlFlow
  rw [← Array.foldl_toList]
  rfl

theorem vcf_binOps_mem (f : Func) : ∀ (L : List Block) (s : VirtualCF) (e : Nat × String),
    e ∈ (L.foldl (vcfStep f) s).virtualBinOps →
      e ∈ s.virtualBinOps ∨ ∃ bl ∈ L, virtualSwapOfBlock f bl = some e
  | [], _, _, h => Or.inl h
  | b :: L, s, e, h => by
    rw [List.foldl_cons] at h
    rcases vcf_binOps_mem f L _ e h with h | ⟨bl, hbl, hsel⟩
    · unfold vcfStep at h
      split at h
      · rename_i id op hv
        simp only [List.mem_append, List.mem_filter, List.mem_singleton] at h
        rcases h with h | h
        · exact Or.inl h.1
        · exact Or.inr ⟨b, List.mem_cons_self .., by rw [hv, h]⟩
      · exact Or.inl h
    · exact Or.inr ⟨bl, List.mem_cons_of_mem _ hbl, hsel⟩

theorem vcf_binOps_has (f : Func) : ∀ (L : List Block) (s : VirtualCF) (id : Nat),
    ((∃ op, (id, op) ∈ s.virtualBinOps) ∨ ∃ bl ∈ L, ∃ op, virtualSwapOfBlock f bl = some (id, op)) →
      ∃ op, (id, op) ∈ (L.foldl (vcfStep f) s).virtualBinOps
  | [], s, id, h => by
    rcases h with h | ⟨bl, hbl, _⟩
    · exact h
    · cases hbl
  | b :: L, s, id, h => by
    rw [List.foldl_cons]
    apply vcf_binOps_has f L
    rcases h with ⟨op, h⟩ | ⟨bl, hbl, op, hsel⟩
    · left
      unfold vcfStep
      split
      · rename_i id' op' hv
        by_cases hid : id = id'
        · exact ⟨op', by simp [hid]⟩
        · exact ⟨op, by simp [List.mem_filter, h, hid]⟩
      · exact ⟨op, h⟩
    · rcases List.mem_cons.1 hbl with rfl | hbl
      · left
        unfold vcfStep
        rw [hsel]
        exact ⟨op, by simp⟩
      · exact Or.inr ⟨bl, hbl, op, hsel⟩

theorem vcf_swapped_mem (f : Func) : ∀ (L : List Block) (s : VirtualCF) (k : Nat),
    k ∈ (L.foldl (vcfStep f) s).swappedBlocks ↔
      (k ∈ s.swappedBlocks ∨ ∃ bl ∈ L, bl.idx = k ∧ ∃ e, virtualSwapOfBlock f bl = some e)
  | [], s, k => by simp
  | b :: L, s, k => by
    rw [List.foldl_cons, vcf_swapped_mem f L]
    unfold vcfStep
    cases hv : virtualSwapOfBlock f b with
    | none =>
      simp only [List.mem_cons, exists_eq_or_imp, hv]
      constructor
      · rintro (h | h)
        · exact Or.inl h
        · exact Or.inr (Or.inr h)
      · rintro (h | ⟨_, ⟨e, he⟩⟩ | h)
        · exact Or.inl h
        · cases he
        · exact Or.inr h
    | some e =>
      obtain ⟨id, op⟩ := e
      simp only [List.mem_append, List.mem_cons, List.not_mem_nil, or_false, exists_eq_or_imp, hv]
      constructor
      · rintro ((h | h) | h)
        · exact Or.inl h
        · exact Or.inr (Or.inl ⟨h.symm, _, rfl⟩)
        · exact Or.inr (Or.inr h)
      · rintro (h | ⟨h, _⟩ | h)
        · exact Or.inl (Or.inl h)
        · exact Or.inl (Or.inr h.symm)
        · exact Or.inr h


/-! ### what `wfCheck` gives -/

structure WF (f : Func) : Prop where
  ids : ∀ (d : Nat) (i : Instr), f.instrs[d]? = some i → i.id = d
  ifLast : ∀ bl ∈ f.blocks.toList, ∀ i ∈ bl.instrs.dropLast, i.kind ≠ .If
  idx : ∀ (k : Nat) (bl : Block), f.blocks[k]? = some bl → bl.idx = k
  instr : ∀ (k : Nat) (bl : Block), f.blocks[k]? = some bl → ∀ i ∈ bl.instrs,
    i.blk = k ∧ f.instrs[i.id]? = some i
  refs : ∀ (k : Nat) (bl : Block), f.blocks[k]? = some bl → ∀ i ∈ bl.instrs, ∀ o ∈ i.ops, ∀ d,
    o.val = some (.instr d) → ∃ t, f.instrs[d]? = some t ∧ ∃ r ∈ t.refs, r.1 = i.id ∧ r.2 = i.kind

theorem WF.of_wfCheck (f : Func) (hwf : wfCheck f = true) : WF f := by
  unfold wfCheck at hwf
  simp only [Bool.and_eq_true, List.all_eq_true, List.mem_range] at hwf
  obtain ⟨⟨h1, h2⟩, h3⟩ := hwf
  have hblk : ∀ (k : Nat) (bl : Block), f.blocks[k]? = some bl →
      bl.idx = k ∧ ∀ i ∈ bl.instrs, i.blk = k ∧ f.instrs[i.id]? = some i ∧
        ∀ o ∈ i.ops, ∀ d, o.val = some (.instr d) →
          ∃ t, f.instrs[d]? = some t ∧ ∃ r ∈ t.refs, r.1 = i.id ∧ r.2 = i.kind := by
    intro k bl hk
    have hlt : k < f.blocks.size := by
      rcases Nat.lt_or_ge k f.blocks.size with h | h
      · exact h
      · rw [Array.getElem?_eq_none h] at hk; cases hk
    have := h3 k hlt
    rw [hk] at this
    simp only [Bool.and_eq_true, List.all_eq_true, beq_iff_eq, decide_eq_true_eq] at this
    refine ⟨this.1, fun i hi => ?_⟩
    obtain ⟨⟨hb, hid⟩, hops⟩ := this.2 i hi
    refine ⟨hb, hid, fun o ho d hd => ?_⟩
    have := hops o ho
    rw [hd] at this
    simp only at this
    split at this
    · rename_i t ht
      refine ⟨t, ht, ?_⟩
      simp only [List.any_eq_true, Bool.and_eq_true, beq_iff_eq] at this
      exact this
    · cases this
  refine ⟨?_, ?_, fun k bl hk => (hblk k bl hk).1, fun k bl hk i hi => ?_, fun k bl hk i hi => ?_⟩
  · intro d i hd
    have hlt : d < f.instrs.size := by
      rcases Nat.lt_or_ge d f.instrs.size with h | h
      · exact h
      · rw [Array.getElem?_eq_none h] at hd; cases hd
    have := h1 d hlt
    rw [hd] at this
    simpa using this
  · intro bl hbl i hi
    have := h2 bl hbl i hi
    simpa using this
  · exact ⟨((hblk k bl hk).2 i hi).1, ((hblk k bl hk).2 i hi).2.1⟩
  · exact ((hblk k bl hk).2 i hi).2.2


/-! ### the selection, seen from the function -/

/-- instruction `id` has its operator replaced in the view -/
def selOf (vcf : VirtualCF) (id : Nat) : Bool := (vcf.virtualBinOps.find? (fun e => e.1 == id)).isSome

/-- some block of `f` selects the comparison `d`, with replacement operator `newOp` -/
def Selected (f : Func) (d : Nat) (newOp : String) : Prop :=
  ∃ (k : Nat) (bl : Block), f.blocks[k]? = some bl ∧ virtualSwapOfBlock f bl = some (d, newOp)

theorem mem_blocks_iff (f : Func) (bl : Block) : bl ∈ f.blocks.toList ↔ ∃ k : Nat, f.blocks[k]? = some bl := by
  rw [List.mem_iff_getElem?]
  simp only [Array.getElem?_toList]

theorem selected_of_find (f : Func) (id : Nat) (e : Nat × String)
    (h : (computeVirtualControlFlow f).virtualBinOps.find? (fun e => e.1 == id) = some e) :
    e.1 = id ∧ Selected f id e.2 := by
  have hm := List.mem_of_find?_eq_some h
  have hp := List.find?_some h
  have hid : e.1 = id := by simpa using hp
  refine ⟨hid, ?_⟩
  rw [computeVirtualControlFlow_eq] at hm
  rcases vcf_binOps_mem f _ _ e hm with hm | ⟨bl, hbl, hsel⟩
  · cases hm
  · obtain ⟨k, hk⟩ := (mem_blocks_iff f bl).1 hbl
    refine ⟨k, bl, hk, ?_⟩
    rw [hsel, ← hid]

theorem selOf_of_selected (f : Func) (d : Nat) (newOp : String) (h : Selected f d newOp) :
    selOf (computeVirtualControlFlow f) d = true := by
  obtain ⟨k, bl, hk, hsel⟩ := h
  have hbl := (mem_blocks_iff f bl).2 ⟨k, hk⟩
  obtain ⟨op, hop⟩ := vcf_binOps_has f f.blocks.toList { swappedBlocks := [], virtualBinOps := [] } d
    (Or.inr ⟨bl, hbl, newOp, hsel⟩)
  rw [← computeVirtualControlFlow_eq] at hop
  unfold selOf
  rw [List.find?_isSome]
  exact ⟨(d, op), hop, by simp⟩

theorem selected_of_selOf (f : Func) (d : Nat) (h : selOf (computeVirtualControlFlow f) d = true) :
    ∃ newOp, Selected f d newOp := by
  unfold selOf at h
  rw [Option.isSome_iff_exists] at h
  obtain ⟨e, he⟩ := h
  exact ⟨e.2, (selected_of_find f d e he).2⟩

theorem swappedBlocks_iff (f : Func) (k : Nat) :
    k ∈ (computeVirtualControlFlow f).swappedBlocks ↔
      ∃ (k' : Nat) (bl : Block), f.blocks[k']? = some bl ∧ bl.idx = k ∧ ∃ e, virtualSwapOfBlock f bl = some e := by
  rw [computeVirtualControlFlow_eq, vcf_swapped_mem]
  constructor
  · rintro (h | ⟨bl, hbl, hidx, he⟩)
    · cases h
    · obtain ⟨k', hk'⟩ := (mem_blocks_iff f bl).1 hbl
      exact ⟨k', bl, hk', hidx, he⟩
  · rintro ⟨k', bl, hk', hidx, he⟩
    exact Or.inr ⟨bl, (mem_blocks_iff f bl).2 ⟨k', hk'⟩, hidx, he⟩

/-- everything a selection says, once the table is indexed by id -/
theorem Selected.spec {f : Func} (hw : WF f) {bl : Block} {d : Nat} {newOp : String}
    (hsel : virtualSwapOfBlock f bl = some (d, newOp)) :
    ∃ ifI o t, bl.instrs.getLast? = some ifI ∧ ifI.kind = .If ∧ ifI.ops[0]? = some o ∧
      o.val = some (.instr d) ∧ f.instrs[d]? = some t ∧ t.kind = .BinOp ∧
      isSafeToSwap (t.opTf 0) = true ∧ isSafeToSwap (t.opTf 1) = true ∧
      (∀ r ∈ t.refs, r.2 = .DebugRef ∨ r.1 = ifI.id) ∧
      ((t.op = ">=" ∧ newOp = "<") ∨ (t.op = ">" ∧ newOp = "<=")) ∧ bl.succs.length = 2 := by
  obtain ⟨ifI, t, h1, h2, h3, h4, h5, h6, h7, h8, h9, h10⟩ := vsob_spec f bl d newOp hsel
  unfold Instr.opVal at h3
  cases ho : ifI.ops[0]? with
  | none => rw [ho] at h3; cases h3
  | some o =>
    rw [ho] at h3
    simp only at h3
    cases hv : o.val with
    | none => rw [hv] at h3; cases h3
    | some v =>
      rw [hv] at h3
      simp only [Option.bind_some] at h3
      cases v with
      | instr d0 =>
        simp only [Func.valInstr?, Func.instr?] at h3
        have : d0 = d := by rw [← hw.ids d0 t h3, h10]
        subst this
        exact ⟨ifI, o, t, h1, h2, ho, hv, h3, h4, h5, h6, h7, h8, h9⟩
      | _ => simp [Func.valInstr?] at h3

/-- who may read a selected comparison: a DebugRef, or the `If` that ends the selecting block -/
theorem Selected.reader {f : Func} (hw : WF f) {d : Nat} {newOp : String} (hs : Selected f d newOp)
    {k : Nat} {bl : Block} (hk : f.blocks[k]? = some bl) {j : Instr} (hj : j ∈ bl.instrs)
    {o : Operand} (ho : o ∈ j.ops) (hd : o.val = some (.instr d)) :
    j.kind = .DebugRef ∨
      (j.kind = .If ∧ bl.instrs.getLast? = some j ∧ virtualSwapOfBlock f bl = some (d, newOp)) := by
  obtain ⟨k', bl', hk', hsel⟩ := hs
  obtain ⟨ifI, o', t, h1, h2, _, _, ht, _, _, _, href, _, _⟩ := Selected.spec hw hsel
  obtain ⟨t', ht', r, hr, hr1, hr2⟩ := hw.refs k bl hk j hj o ho d hd
  rw [ht] at ht'
  cases ht'
  rcases href r hr with h | h
  · exact Or.inl (hr2 ▸ h)
  · right
    have hmem : ifI ∈ bl'.instrs := List.mem_of_getLast? h1
    have e1 := (hw.instr k' bl' hk' ifI hmem)
    have e2 := (hw.instr k bl hk j hj)
    have hji : j = ifI := by
      have := e2.2
      rw [← hr1, h, e1.2] at this
      exact (Option.some.inj this).symm
    subst hji
    have hkk : k = k' := by rw [← e2.1, e1.1]
    subst hkk
    rw [hk] at hk'
    cases hk'
    exact ⟨h2, h1, hsel⟩


/-! ### the view of an instruction, of the successors -/

theorem viewInstr_kind (vcf : VirtualCF) (exch : Exchange) (j : Instr) :
    (viewInstr vcf exch j).kind = j.kind ∧ (viewInstr vcf exch j).id = j.id := by
  unfold viewInstr
  split
  · exact ⟨rfl, rfl⟩
  · split
    · exact ⟨rfl, rfl⟩
    · split
      · split <;> exact ⟨rfl, rfl⟩
      · exact ⟨rfl, rfl⟩

theorem viewInstr_nonBin (vcf : VirtualCF) (exch : Exchange) (j : Instr) (h : j.kind ≠ .BinOp) :
    viewInstr vcf exch j = j := by
  unfold viewInstr
  rw [if_pos (by simpa using h)]

theorem viewInstr_sel (vcf : VirtualCF) (exch : Exchange) (j : Instr) (h : j.kind = .BinOp) (e : Nat × String)
    (he : vcf.virtualBinOps.find? (fun e => e.1 == j.id) = some e) :
    viewInstr vcf exch j = { j with op := e.2 } := by
  unfold viewInstr
  rw [if_neg (by simp [h]), he]

theorem viewInstr_nosel (vcf : VirtualCF) (exch : Exchange) (j : Instr) (h : j.kind = .BinOp)
    (he : vcf.virtualBinOps.find? (fun e => e.1 == j.id) = none) :
    viewInstr vcf exch j = j ∨
      (isCommutative j = true ∧ ∃ x y, j.ops = [x, y] ∧ viewInstr vcf exch j = { j with ops := [y, x] }) := by
  unfold viewInstr
  rw [if_neg (by simp [h]), he]
  simp only
  split
  · rename_i hc
    simp only [Bool.and_eq_true] at hc
    split
    · rename_i x y hxy
      exact Or.inr ⟨hc.1, x, y, hxy, rfl⟩
    · exact Or.inl rfl
  · exact Or.inl rfl

theorem virtualSuccessors_not_swapped (f : Func) (swapped : List Nat) (k : Nat)
    (h : swapped.contains k = false) : virtualSuccessors f swapped k = f.succs k := by
  unfold virtualSuccessors
  split
  · rename_i s0 s1 hs
    rw [h]; simp [hs]
  · rfl

theorem virtualSuccessors_swapped (f : Func) (swapped : List Nat) (k : Nat) (s0 s1 : Nat)
    (h : swapped.contains k = true) (hs : f.succs k = [s0, s1]) : virtualSuccessors f swapped k = [s1, s0] := by
  unfold virtualSuccessors
  rw [hs]
  simp only [h, if_true]

theorem succs_of_block (f : Func) (k : Nat) (bl : Block) (hk : f.blocks[k]? = some bl) : f.succs k = bl.succs := by
  unfold Func.succs
  rw [hk]

theorem length_two {α : Type} {l : List α} (h : l.length = 2) : ∃ a b, l = [a, b] := by
  match l, h with
  | [a, b], _ => exact ⟨a, b, rfl⟩

theorem mem_dropLast_or_last {α : Type} (l : List α) (x : α) (h : x ∈ l) :
    x ∈ l.dropLast ∨ l.getLast? = some x := by
  induction l with
  | nil => cases h
  | cons a t ih =>
    cases t with
    | nil =>
      right
      simp only [List.mem_singleton] at h
      simp [h]
    | cons b t' =>
      rcases List.mem_cons.1 h with rfl | h
      · left; simp [List.dropLast]
      · rcases ih h with h' | h'
        · left; simp only [List.dropLast_cons_cons, List.mem_cons]; exact Or.inr h'
        · right; simpa [List.getLast?_cons_cons] using h'


/-! ### every block of a well-formed function is presented faithfully -/

/-- the blocks whose successors the view exchanges -/
def swappedOf (f : Func) : List Nat :=
  (computeVirtualControlFlow f).swappedBlocks.filter (fun b => (f.succs b).length == 2)

theorem swappedOf_iff {f : Func} (hw : WF f) {k : Nat} {bl : Block} (hk : f.blocks[k]? = some bl) :
    (swappedOf f).contains k = true ↔ ∃ d newOp, virtualSwapOfBlock f bl = some (d, newOp) := by
  unfold swappedOf
  rw [List.contains_iff_mem, List.mem_filter, swappedBlocks_iff]
  constructor
  · rintro ⟨⟨k', bl', hk', hidx, e, he⟩, _⟩
    have : k' = k := by rw [← hw.idx k' bl' hk', hidx]
    subst this
    rw [hk] at hk'
    cases hk'
    exact ⟨e.1, e.2, he⟩
  · rintro ⟨d, newOp, hsel⟩
    obtain ⟨_, _, _, _, _, _, _, _, _, _, _, _, _, hlen⟩ := Selected.spec hw hsel
    refine ⟨⟨k, bl, hk, hw.idx k bl hk, _, hsel⟩, ?_⟩
    rw [succs_of_block f k bl hk, hlen]
    rfl

theorem blockOK_of_wf {f : Func} (hw : WF f) (exch : Exchange) {k : Nat} {bl : Block}
    (hk : f.blocks[k]? = some bl) :
    BlockOK (selOf (computeVirtualControlFlow f)) (viewInstr (computeVirtualControlFlow f) exch) bl.succs
      (virtualSuccessors f (swappedOf f) bl.idx) bl.instrs := by
  have hidx : bl.idx = k := hw.idx k bl hk
  rw [hidx]
  have hsuc := succs_of_block f k bl hk
  -- a selected operand is read by a DebugRef or by the If ending a swapped block
  have hread : ∀ j ∈ bl.instrs, ∀ o ∈ j.ops, ∀ d, o.val = some (.instr d) →
      selOf (computeVirtualControlFlow f) d = true →
      j.kind = .DebugRef ∨ (j.kind = .If ∧ (swappedOf f).contains k = true) := by
    intro j hj o ho d hd hs
    obtain ⟨newOp, hS⟩ := selected_of_selOf f d hs
    rcases hS.reader hw hk hj ho hd with h | ⟨h1, _, h3⟩
    · exact Or.inl h
    · exact Or.inr ⟨h1, (swappedOf_iff hw hk).2 ⟨d, newOp, h3⟩⟩
  refine ⟨fun j hj => ?_, ?_, fun j hj hIf => ?_⟩
  · have hjt := (hw.instr k bl hk j hj).2
    refine ⟨(viewInstr_kind _ exch j).1, (viewInstr_kind _ exch j).2,
      fun hnb => ⟨viewInstr_nonBin _ exch j hnb, ?_⟩, fun hnd hni o ho d hd => ?_, fun hb => ?_⟩
    · cases hs : selOf (computeVirtualControlFlow f) j.id with
      | false => rfl
      | true =>
        obtain ⟨newOp, k', bl', _, hsel⟩ := selected_of_selOf f j.id hs
        obtain ⟨_, _, t, _, _, _, _, ht, htk, _⟩ := Selected.spec hw hsel
        rw [hjt] at ht
        cases ht
        exact absurd htk hnb
    · cases hs : selOf (computeVirtualControlFlow f) d with
      | false => rfl
      | true =>
        rcases hread j hj o ho d hd hs with h | ⟨h, _⟩
        · exact absurd h hnd
        · exact absurd h hni
    · cases he : (computeVirtualControlFlow f).virtualBinOps.find? (fun e => e.1 == j.id) with
      | some e =>
        left
        obtain ⟨_, k', bl', _, hsel⟩ := selected_of_find f j.id e he
        obtain ⟨_, _, t, _, _, _, _, ht, _, h0, h1, _, hop, _⟩ := Selected.spec hw hsel
        rw [hjt] at ht
        cases ht
        refine ⟨?_, e.2, viewInstr_sel _ exch j hb e he, hop, h0, h1⟩
        unfold selOf
        rw [he]; rfl
      | none =>
        right
        refine ⟨?_, viewInstr_nosel _ exch j hb he⟩
        unfold selOf
        rw [he]; rfl
  · cases hc : (swappedOf f).contains k with
    | false =>
      left
      rw [virtualSuccessors_not_swapped f _ k hc, hsuc]
    | true =>
      right
      obtain ⟨d, newOp, hsel⟩ := (swappedOf_iff hw hk).1 hc
      obtain ⟨_, _, _, _, _, _, _, _, _, _, _, _, _, hlen⟩ := Selected.spec hw hsel
      obtain ⟨s0, s1, hs⟩ := length_two hlen
      exact ⟨s0, s1, hs, virtualSuccessors_swapped f _ k s0 s1 hc (hsuc.trans hs)⟩
  · have hlast : bl.instrs.getLast? = some j := by
      rcases mem_dropLast_or_last bl.instrs j hj with h | h
      · exact absurd hIf (hw.ifLast bl ((mem_blocks_iff f bl).2 ⟨k, hk⟩) j h)
      · exact h
    cases hc : (swappedOf f).contains k with
    | true =>
      left
      obtain ⟨d, newOp, hsel⟩ := (swappedOf_iff hw hk).1 hc
      obtain ⟨ifI, o, _, hl, _, ho, hv, _, _, _, _, _, _, hlen⟩ := Selected.spec hw hsel
      rw [hlast] at hl
      cases hl
      obtain ⟨s0, s1, hs⟩ := length_two hlen
      exact ⟨o, d, s0, s1, ho, hv, selOf_of_selected f d newOp ⟨k, bl, hk, hsel⟩, hs,
        virtualSuccessors_swapped f _ k s0 s1 hc (hsuc.trans hs)⟩
    | false =>
      right
      refine ⟨fun o ho d hd => ?_, by rw [virtualSuccessors_not_swapped f _ k hc, hsuc]⟩
      cases hs : selOf (computeVirtualControlFlow f) d with
      | false => rfl
      | true =>
        rcases hread j hj o (List.mem_of_getElem? ho) d hd hs with h | ⟨_, h⟩
        · rw [hIf] at h; cases h
        · rw [hc] at h; cases h

/-- the view of a well-formed function behaves like the function -/
theorem view_same_behaviour (f : Func) (hwf : wfCheck f = true) (exch : Exchange)
    (args : List Value) (fuel : Nat) :
    run (virtualView f exch) args fuel = run f args fuel := by
  have hw := WF.of_wfCheck f hwf
  unfold run
  have hn : (virtualView f exch).nInstrs = f.nInstrs := by
    simp [virtualView, Func.nInstrs]
  rw [hn]
  refine runFrom_sim (sel := selOf (computeVirtualControlFlow f))
    (vw := viewInstr (computeVirtualControlFlow f) exch) f (virtualView f exch)
    (fun bl => virtualSuccessors f (swappedOf f) bl.idx) (fun b => ?_)
    (fun b bl hb => blockOK_of_wf hw exch hb) args fuel none 0 _ _ (EnvRel.refl_replicate _ _)
  simp only [virtualView, Array.getElem?_map]
  rfl

end Sfw.Canon.Sem
