/-
  Helper lemmas for C13: a case analysis of Go's string encoder `escapeChar`, the fact that the
  encoder never emits a raw newline, and the round trip `lexString (quote s ++ rest) = (s, rest)`.

  NOTE on tactics: `split` / `split_ifs` / `simp only [f]` on definitions containing many character
  or string literals are very slow here; the proofs use `unfold`, `by_cases` and `rw [if_pos/if_neg]`.
-/
import SfwModel.Model.Json
namespace Sfw.Json
open Sfw

/-- the twelve branches of `escapeChar`, with the conditions the later branches may assume -/
theorem escapeChar_cases (c : Char) :
    (c = '"' ∧ escapeChar c = ['\\', '"']) ∨
    (c = '\\' ∧ escapeChar c = ['\\', '\\']) ∨
    (c = '\n' ∧ escapeChar c = ['\\', 'n']) ∨
    (c = '\r' ∧ escapeChar c = ['\\', 'r']) ∨
    (c = '\t' ∧ escapeChar c = ['\\', 't']) ∨
    (c = Char.ofNat 8 ∧ escapeChar c = ['\\', 'b']) ∨
    (c = Char.ofNat 12 ∧ escapeChar c = ['\\', 'f']) ∨
    (c.toNat < 0x20 ∧ escapeChar c = u00 c.toNat) ∨
    (c = '<' ∧ escapeChar c = u00 c.toNat) ∨
    (c = '>' ∧ escapeChar c = u00 c.toNat) ∨
    (c = '&' ∧ escapeChar c = u00 c.toNat) ∨
    (c = Char.ofNat 0x2028 ∧ escapeChar c = "\\u2028".toList) ∨
    (c = Char.ofNat 0x2029 ∧ escapeChar c = "\\u2029".toList) ∨
    (c ≠ '"' ∧ c ≠ '\\' ∧ c ≠ '\n' ∧ ¬ c.toNat < 0x20 ∧ escapeChar c = [c]) := by
  unfold escapeChar
  by_cases h1 : c = '"'
  · rw [if_pos h1]; exact Or.inl ⟨h1, rfl⟩
  rw [if_neg h1]; right
  by_cases h2 : c = '\\'
  · rw [if_pos h2]; exact Or.inl ⟨h2, rfl⟩
  rw [if_neg h2]; right
  by_cases h3 : c = '\n'
  · rw [if_pos h3]; exact Or.inl ⟨h3, rfl⟩
  rw [if_neg h3]; right
  by_cases h4 : c = '\r'
  · rw [if_pos h4]; exact Or.inl ⟨h4, rfl⟩
  rw [if_neg h4]; right
  by_cases h5 : c = '\t'
  · rw [if_pos h5]; exact Or.inl ⟨h5, rfl⟩
  rw [if_neg h5]; right
  by_cases h6 : c = Char.ofNat 8
  · rw [if_pos h6]; exact Or.inl ⟨h6, rfl⟩
  rw [if_neg h6]; right
  by_cases h7 : c = Char.ofNat 12
  · rw [if_pos h7]; exact Or.inl ⟨h7, rfl⟩
  rw [if_neg h7]; right
  by_cases h8 : c.toNat < 0x20
  · rw [if_pos h8]; exact Or.inl ⟨h8, rfl⟩
  rw [if_neg h8]; right
  by_cases h9 : c = '<' ∨ c = '>' ∨ c = '&'
  · rw [if_pos h9]
    rcases h9 with h | h | h
    · exact Or.inl ⟨h, rfl⟩
    · exact Or.inr (Or.inl ⟨h, rfl⟩)
    · exact Or.inr (Or.inr (Or.inl ⟨h, rfl⟩))
  rw [if_neg h9]; right; right; right
  by_cases h10 : c = Char.ofNat 0x2028
  · rw [if_pos h10]; exact Or.inl ⟨h10, rfl⟩
  rw [if_neg h10]; right
  by_cases h11 : c = Char.ofNat 0x2029
  · rw [if_pos h11]; exact Or.inl ⟨h11, rfl⟩
  rw [if_neg h11]; right
  exact ⟨h1, h2, h3, h8, rfl⟩

/-! ### no raw newline -/

theorem hexLower_ne_nl : ∀ n, n < 16 → hexLower n ≠ '\n' := by decide

theorem u00_no_nl (n : Nat) (h : n < 256) : '\n' ∉ u00 n := by
  have ha := hexLower_ne_nl (n / 16) (by omega)
  have hb := hexLower_ne_nl (n % 16) (by omega)
  simp [u00, Ne.symm ha, Ne.symm hb]

theorem escapeChar_no_nl (c : Char) : '\n' ∉ escapeChar c := by
  rcases escapeChar_cases c with h | h | h | h | h | h | h | h | h | h | h | h | h | h
  · rw [h.2]; decide
  · rw [h.2]; decide
  · rw [h.2]; decide
  · rw [h.2]; decide
  · rw [h.2]; decide
  · rw [h.2]; decide
  · rw [h.2]; decide
  · rw [h.2]; exact u00_no_nl _ (by have := h.1; omega)
  · obtain ⟨h0, h⟩ := h; rw [h]; subst h0; decide
  · obtain ⟨h0, h⟩ := h; rw [h]; subst h0; decide
  · obtain ⟨h0, h⟩ := h; rw [h]; subst h0; decide
  · rw [h.2]; decide
  · rw [h.2]; decide
  · obtain ⟨_, _, h3, _, h⟩ := h
    rw [h]; simp; exact fun h => h3 h.symm

theorem jsonEscape_no_nl (s : Str) : '\n' ∉ jsonEscape s := by
  unfold jsonEscape
  intro h
  rw [List.mem_flatMap] at h
  obtain ⟨c, _, hc⟩ := h
  exact escapeChar_no_nl c hc

theorem quote_no_nl (s : Str) : '\n' ∉ quote s := by
  have := jsonEscape_no_nl s
  simp [quote, this]

/-! ### the lexer undoes the encoder -/

theorem hexLower_val : ∀ n, n < 16 → hexDigitVal (hexLower n) = some n := by decide

theorem hex4_u00 (n : Nat) (h : n < 256) (tail : Str) :
    hex4 ('0' :: '0' :: hexLower (n / 16) :: hexLower (n % 16) :: tail) = some (n, tail) := by
  have ha := hexLower_val (n / 16) (by omega)
  have hb := hexLower_val (n % 16) (by omega)
  have h0 : hexDigitVal '0' = some 0 := by decide
  simp only [hex4, ha, hb, h0]
  congr 2
  omega

/-- a `\u00XX` escape is lexed back to the code point (never a surrogate) using one unit of fuel -/
theorem lex_u00 (fuel : Nat) (n : Nat) (h : n < 256) (tail acc : Str) :
    lexStringBody (fuel + 1) (u00 n ++ tail) acc = lexStringBody fuel tail (Char.ofNat n :: acc) := by
  have h4 := hex4_u00 n h tail
  have e : u00 n ++ tail =
      '\\' :: 'u' :: ('0' :: '0' :: hexLower (n / 16) :: hexLower (n % 16) :: tail) := rfl
  rw [e, lexStringBody]
  have h1 : ('\\' = '"') = False := by decide
  have h2 : ('\\'.toNat < 0x20) = False := by decide
  simp only [h1, h2, if_false, if_true, h4]
  have h3 : ¬ (0xD800 ≤ n ∧ n < 0xDC00) := by omega
  have h5 : ¬ (0xDC00 ≤ n ∧ n < 0xE000) := by omega
  rw [if_neg h3, if_neg h5]

/-- a character that the encoder leaves alone is lexed as itself -/
theorem lex_raw (fuel : Nat) (c : Char) (h1 : c ≠ '"') (h2 : c ≠ '\\') (h3 : ¬ c.toNat < 0x20)
    (tail acc : Str) :
    lexStringBody (fuel + 1) (c :: tail) acc = lexStringBody fuel tail (c :: acc) := by
  simp only [lexStringBody, if_neg h1, if_neg h3, if_neg h2]

/-- the per-character step: one escape sequence, one unit of fuel, one decoded character -/
theorem lex_escapeChar (fuel : Nat) (c : Char) (tail acc : Str) :
    lexStringBody (fuel + 1) (escapeChar c ++ tail) acc = lexStringBody fuel tail (c :: acc) := by
  rcases escapeChar_cases c with h | h | h | h | h | h | h | h | h | h | h | h | h | h
  · obtain ⟨h0, h⟩ := h; rw [h]; subst h0; rfl
  · obtain ⟨h0, h⟩ := h; rw [h]; subst h0; rfl
  · obtain ⟨h0, h⟩ := h; rw [h]; subst h0; rfl
  · obtain ⟨h0, h⟩ := h; rw [h]; subst h0; rfl
  · obtain ⟨h0, h⟩ := h; rw [h]; subst h0; rfl
  · obtain ⟨h0, h⟩ := h; rw [h]; subst h0; rfl
  · obtain ⟨h0, h⟩ := h; rw [h]; subst h0; rfl
  · obtain ⟨h0, h⟩ := h
    rw [h, lex_u00 fuel _ (by omega), Char.ofNat_toNat]
  · obtain ⟨h0, h⟩ := h; rw [h]; subst h0; rfl
  · obtain ⟨h0, h⟩ := h; rw [h]; subst h0; rfl
  · obtain ⟨h0, h⟩ := h; rw [h]; subst h0; rfl
  · obtain ⟨h0, h⟩ := h; rw [h]; subst h0; rfl
  · obtain ⟨h0, h⟩ := h; rw [h]; subst h0; rfl
  · obtain ⟨h1, h2, _, h3, h⟩ := h
    rw [h]; exact lex_raw fuel c h1 h2 h3 tail acc

/-- with at least `s.length + 1` fuel the body lexer returns `s` and stops right after the closing
    quote -/
theorem lex_body (s : Str) : ∀ (fuel : Nat) (rest acc : Str), s.length + 1 ≤ fuel →
    lexStringBody fuel (jsonEscape s ++ '"' :: rest) acc = some (acc.reverse ++ s, rest) := by
  induction s with
  | nil =>
    intro fuel rest acc hf
    obtain ⟨f, rfl⟩ : ∃ f, fuel = f + 1 := ⟨fuel - 1, by simp at hf; omega⟩
    simp [jsonEscape, lexStringBody]
  | cons c s ih =>
    intro fuel rest acc hf
    obtain ⟨f, rfl⟩ : ∃ f, fuel = f + 1 := ⟨fuel - 1, by simp at hf; omega⟩
    have e : jsonEscape (c :: s) ++ '"' :: rest = escapeChar c ++ (jsonEscape s ++ '"' :: rest) := by
      simp [jsonEscape]
    rw [e, lex_escapeChar, ih f rest (c :: acc) (by simp at hf; omega)]
    simp

theorem escapeChar_length (c : Char) : 1 ≤ (escapeChar c).length := by
  rcases escapeChar_cases c with h | h | h | h | h | h | h | h | h | h | h | h | h | h
  all_goals first
    | (obtain ⟨_, h⟩ := h; rw [h]; simp [u00])
    | (obtain ⟨_, _, _, _, h⟩ := h; rw [h]; simp)

theorem jsonEscape_length (s : Str) : s.length ≤ (jsonEscape s).length := by
  induction s with
  | nil => simp
  | cons c s ih =>
    have := escapeChar_length c
    simp [jsonEscape] at ih ⊢
    omega

theorem lexString_quote (s rest : Str) : lexString (quote s ++ rest) = some (s, rest) := by
  have e : quote s ++ rest = '"' :: (jsonEscape s ++ '"' :: rest) := by simp [quote]
  rw [e]
  simp only [lexString]
  rw [lex_body s _ rest []]
  · simp
  · have := jsonEscape_length s
    simp; omega

end Sfw.Json
