/-
  Integer arithmetic behind the trip-count closed forms of `deriveTripCount`
  (truncated division `Int.tdiv`, then `max 0`).  Used by Props/C12.lean.
-/
import Mathlib.Tactic.Linarith
import Mathlib.Tactic.Ring
namespace Sfw.Canon.C12Arith

/-- truncated division of a negative number by a positive one is not positive -/
theorem tdiv_nonpos_of_neg_of_pos {a d : Int} (ha : a < 0) (hd : 0 < d) : Int.tdiv a d ≤ 0 := by
  have h : 0 ≤ Int.tdiv (-a) d := Int.tdiv_nonneg (by omega) hd.le
  rw [Int.neg_tdiv] at h
  omega

/-- CORE: with a positive step `d` and a distance `D` (exclusive bound), the number
    `max 0 (tdiv (D + d - 1) d)` is a natural number `N` with `k*d < D` for exactly the `k < N`.
    Note that the numerator may be negative (`D ≤ -d`), where `tdiv` rounds towards zero; the
    quotient is then `≤ 0` and `max 0` makes it `0`. -/
theorem tripCore (D d : Int) (hd : 0 < d) :
    ∃ N : Nat, max 0 (Int.tdiv (D + d - 1) d) = (N : Int) ∧
      (∀ k : Nat, k < N → (k : Int) * d < D) ∧ D ≤ (N : Int) * d := by
  by_cases ha : 0 ≤ D + d - 1
  · rw [Int.tdiv_eq_ediv_of_nonneg ha]
    have hq0 : 0 ≤ (D + d - 1) / d := Int.ediv_nonneg ha hd.le
    have h1 : (D + d - 1) / d * d ≤ D + d - 1 := Int.ediv_mul_le _ (ne_of_gt hd)
    have h2 : D + d - 1 < ((D + d - 1) / d + 1) * d := Int.lt_ediv_add_one_mul_self _ hd
    generalize (D + d - 1) / d = q at hq0 h1 h2
    refine ⟨q.toNat, ?_, ?_, ?_⟩
    · rw [Int.toNat_of_nonneg hq0]; exact max_eq_right hq0
    · intro k hk
      have hk' : (k : Int) + 1 ≤ q := by omega
      have h3 : ((k : Int) + 1) * d ≤ q * d := Int.mul_le_mul_of_nonneg_right hk' hd.le
      linarith
    · rw [Int.toNat_of_nonneg hq0]; linarith
  · have ha' : D + d - 1 < 0 := by omega
    have h := tdiv_nonpos_of_neg_of_pos ha' hd
    refine ⟨0, ?_, ?_, ?_⟩
    · simpa using h
    · intro k hk; exact absurd hk (Nat.not_lt_zero k)
    · simp; omega

/-- inclusive bound: `max 0 (tdiv (D + d) d)` counts the `k` with `k*d ≤ D` -/
theorem tripCoreIncl (D d : Int) (hd : 0 < d) :
    ∃ N : Nat, max 0 (Int.tdiv (D + d) d) = (N : Int) ∧
      (∀ k : Nat, k < N → (k : Int) * d ≤ D) ∧ D < (N : Int) * d := by
  obtain ⟨N, h1, h2, h3⟩ := tripCore (D + 1) d hd
  refine ⟨N, ?_, ?_, ?_⟩
  · rw [← h1]; congr 2; ring
  · intro k hk; have := h2 k hk; omega
  · omega

end Sfw.Canon.C12Arith
