/-
  Helper lemmas for Props/C09 (diff report / matcher): `byName`, `lookup`, `sortedNames`,
  `greedy`, `candidates`, index selection.
-/
import SfwModel.Model.DiffReport
import Mathlib.Data.List.Sort
import Mathlib.Data.List.Perm.Basic
import Mathlib.Data.List.Nodup
namespace Sfw.DiffReport
open Sfw

/-! ### byName -/

def bnStep (acc : List (Str × FnEntry)) (e : FnEntry) : List (Str × FnEntry) :=
  acc.filter (fun p => p.1 ≠ e.short) ++ [(e.short, e)]

theorem byName_eq_foldl (l : List FnEntry) : byName l = l.foldl bnStep [] := rfl

theorem foldl_bnStep_wf (l : List FnEntry) (acc : List (Str × FnEntry))
    (h : ∀ p ∈ acc, p.1 = p.2.short) : ∀ p ∈ l.foldl bnStep acc, p.1 = p.2.short := by
  induction l generalizing acc with
  | nil => simpa using h
  | cons e l ih =>
    simp only [List.foldl_cons]
    apply ih
    intro p hp
    simp only [bnStep, List.mem_append, List.mem_filter, List.mem_singleton] at hp
    rcases hp with ⟨hp, _⟩ | rfl
    · exact h p hp
    · rfl

theorem foldl_bnStep_mem (l : List FnEntry) (acc : List (Str × FnEntry)) :
    ∀ p ∈ l.foldl bnStep acc, p ∈ acc ∨ p.2 ∈ l := by
  induction l generalizing acc with
  | nil => intro p hp; exact Or.inl (by simpa using hp)
  | cons e l ih =>
    intro p hp
    simp only [List.foldl_cons] at hp
    rcases ih _ p hp with hp | hp
    · simp only [bnStep, List.mem_append, List.mem_filter, List.mem_singleton] at hp
      rcases hp with ⟨hp, _⟩ | rfl
      · exact Or.inl hp
      · exact Or.inr (by simp)
    · exact Or.inr (List.mem_cons_of_mem _ hp)

theorem foldl_bnStep_keys_nodup (l : List FnEntry) (acc : List (Str × FnEntry))
    (h : (acc.map (·.1)).Nodup) : ((l.foldl bnStep acc).map (·.1)).Nodup := by
  induction l generalizing acc with
  | nil => simpa using h
  | cons e l ih =>
    simp only [List.foldl_cons]
    apply ih
    simp only [bnStep, List.map_append, List.map_cons, List.map_nil]
    rw [List.nodup_append]
    refine ⟨(h.sublist ((List.filter_sublist).map _)), by simp, ?_⟩
    intro a ha b hb
    simp only [List.mem_map, List.mem_filter] at ha
    obtain ⟨p, ⟨_, hp⟩, rfl⟩ := ha
    simp only [List.mem_singleton] at hb
    subst hb
    simpa using hp

theorem foldl_bnStep_keys (l : List FnEntry) (acc : List (Str × FnEntry)) (k : Str) :
    k ∈ (l.foldl bnStep acc).map (·.1) ↔ k ∈ acc.map (·.1) ∨ k ∈ l.map FnEntry.short := by
  induction l generalizing acc with
  | nil => simp
  | cons e l ih =>
    simp only [List.foldl_cons, ih, List.map_cons, List.mem_cons]
    simp only [bnStep, List.map_append, List.mem_append, List.mem_map, List.mem_filter,
      List.map_cons, List.map_nil, List.mem_singleton]
    constructor
    · rintro ((⟨p, ⟨hp, _⟩, rfl⟩ | h) | h)
      · exact Or.inl ⟨p, hp, rfl⟩
      · exact Or.inr (Or.inl h)
      · exact Or.inr (Or.inr h)
    · rintro (⟨p, hp, rfl⟩ | h | h)
      · by_cases hk : p.1 = e.short
        · exact Or.inl (Or.inr hk)
        · exact Or.inl (Or.inl ⟨p, ⟨hp, by simpa using hk⟩, rfl⟩)
      · exact Or.inl (Or.inr h)
      · exact Or.inr h

theorem byName_wf (l : List FnEntry) : ∀ p ∈ byName l, p.1 = p.2.short ∧ p.2 ∈ l := by
  intro p hp
  refine ⟨foldl_bnStep_wf l [] (by simp) p hp, ?_⟩
  rcases foldl_bnStep_mem l [] p hp with h | h
  · simp at h
  · exact h

theorem byName_keys_nodup (l : List FnEntry) : ((byName l).map (·.1)).Nodup :=
  foldl_bnStep_keys_nodup l [] (by simp)

theorem byName_keys (l : List FnEntry) (k : Str) :
    k ∈ (byName l).map (·.1) ↔ k ∈ l.map FnEntry.short := by
  rw [byName_eq_foldl, foldl_bnStep_keys]; simp

theorem foldl_bnStep_nodup (l : List FnEntry) (acc : List (Str × FnEntry))
    (hl : (l.map FnEntry.short).Nodup) (hd : ∀ p ∈ acc, ∀ e ∈ l, p.1 ≠ e.short) :
    l.foldl bnStep acc = acc ++ l.map (fun e => (e.short, e)) := by
  induction l generalizing acc with
  | nil => simp
  | cons e l ih =>
    simp only [List.map_cons, List.nodup_cons] at hl
    have hf : acc.filter (fun p => p.1 ≠ e.short) = acc := by
      rw [List.filter_eq_self]
      intro p hp
      simpa using hd p hp e (by simp)
    simp only [List.foldl_cons, bnStep, hf]
    rw [ih _ hl.2]
    · simp
    · intro p hp x hx
      simp only [List.mem_append, List.mem_singleton] at hp
      rcases hp with hp | rfl
      · exact hd p hp x (List.mem_cons_of_mem _ hx)
      · intro h
        exact hl.1 (by simpa using ⟨x, hx, h.symm⟩)

theorem byName_of_nodup (l : List FnEntry) (hl : (l.map FnEntry.short).Nodup) :
    byName l = l.map (fun e => (e.short, e)) := by
  rw [byName_eq_foldl, foldl_bnStep_nodup l [] hl (by simp)]; simp

/-! ### lookup -/

theorem lookup_some_mem {m : List (Str × FnEntry)} {n : Str} {e : FnEntry}
    (h : lookup m n = some e) : (n, e) ∈ m := by
  unfold lookup at h
  rw [Option.map_eq_some_iff] at h
  obtain ⟨p, hp, rfl⟩ := h
  have h1 := List.find?_some hp
  have h2 := List.mem_of_find?_eq_some hp
  simp only [decide_eq_true_eq] at h1
  subst h1
  exact h2

theorem lookup_eq_none {m : List (Str × FnEntry)} {n : Str} :
    lookup m n = none ↔ n ∉ m.map (·.1) := by
  unfold lookup
  simp only [Option.map_eq_none_iff, List.find?_eq_none, decide_eq_true_eq, List.mem_map, not_exists,
    not_and]

theorem lookup_of_mem {m : List (Str × FnEntry)} (hm : (m.map (·.1)).Nodup) {n : Str} {e : FnEntry}
    (h : (n, e) ∈ m) : lookup m n = some e := by
  cases hl : lookup m n with
  | none =>
    rw [lookup_eq_none] at hl
    exact absurd (List.mem_map.2 ⟨(n, e), h, rfl⟩) hl
  | some e' =>
    have h' := lookup_some_mem hl
    have := (List.inj_on_of_nodup_map hm) h' h rfl
    simp only [Prod.mk.injEq, true_and] at this
    rw [this]

/-- `lookup (byName l)` finds an entry of `l` with that short name. -/
theorem lookup_byName_some {l : List FnEntry} {n : Str} {e : FnEntry}
    (h : lookup (byName l) n = some e) : e.short = n ∧ e ∈ l := by
  have := byName_wf l _ (lookup_some_mem h)
  exact ⟨this.1.symm, this.2⟩

theorem lookup_byName_isSome {l : List FnEntry} {n : Str} :
    (lookup (byName l) n).isSome ↔ ∃ e ∈ l, e.short = n := by
  rw [← Option.ne_none_iff_isSome, Ne, lookup_eq_none, not_not, byName_keys]
  simp

theorem lookup_byName_eq_none {l : List FnEntry} {n : Str} :
    lookup (byName l) n = none ↔ ∀ e ∈ l, e.short ≠ n := by
  rw [lookup_eq_none, byName_keys]
  simp

theorem lookup_byName_of_nodup {l : List FnEntry} (hl : (l.map FnEntry.short).Nodup) {e : FnEntry}
    (he : e ∈ l) : lookup (byName l) e.short = some e := by
  apply lookup_of_mem (byName_keys_nodup l)
  rw [byName_of_nodup l hl]
  exact List.mem_map.2 ⟨e, he, rfl⟩

/-! ### sortedNames -/

theorem mem_sortedNames {l : List FnEntry} {n : Str} :
    n ∈ sortedNames (byName l) ↔ ∃ e ∈ l, e.short = n := by
  unfold sortedNames sortStrs
  rw [List.mem_mergeSort, byName_keys]
  simp

theorem sortedNames_nodup (l : List FnEntry) : (sortedNames (byName l)).Nodup := by
  unfold sortedNames sortStrs
  exact (List.mergeSort_perm _ _).nodup_iff.2 (byName_keys_nodup l)

theorem sortedNames_perm {l : List FnEntry} (hl : (l.map FnEntry.short).Nodup) :
    (sortedNames (byName l)).Perm (l.map FnEntry.short) := by
  unfold sortedNames sortStrs
  refine (List.mergeSort_perm _ _).trans ?_
  rw [byName_of_nodup l hl]
  simp [Function.comp_def]

/-! ### the matcher, parameterised by the sorted names and the lookup functions -/

def directOf (oNames : List Str) (lo ln : Str → Option FnEntry) : List Pair :=
  oNames.filterMap (fun n =>
    match lo n, ln n with
    | some o, some w => some { old := o, new := w, sim := (simOf o.topo w.topo).getD 1, byName := true }
    | _, _ => none)

/-- the entries of `names` (looked up by `lself`) whose name the other side does not have -/
def unOf (names : List Str) (lother lself : Str → Option FnEntry) : List FnEntry :=
  names.filterMap (fun n => if (lother n).isSome then none else lself n)

def fuzzyOf (uo un : List FnEntry) (chosen : List Cand) : List Pair :=
  chosen.filterMap (fun c =>
    match uo[c.i]?, un[c.j]? with
    | some o, some w => some { old := o, new := w, sim := c.sim, byName := false }
    | _, _ => none)

def restOf (xs : List FnEntry) (used : List Nat) : List FnEntry :=
  (xs.zipIdx).filterMap (fun (o, i) => if used.contains i then none else some o)

def chosenOf (uo un : List FnEntry) (thr : Rat) : List Cand :=
  greedy ((candidates uo un thr).mergeSort candLe) [] [] []

def matchCore (oNames nNames : List Str) (lo ln : Str → Option FnEntry) (thr : Rat) : MatchOut :=
  let direct := directOf oNames lo ln
  let uo := unOf oNames ln lo
  let un := unOf nNames lo ln
  if uo.isEmpty || un.isEmpty then { matched := direct, added := un, removed := uo }
  else
    let chosen := chosenOf uo un thr
    { matched := direct ++ fuzzyOf uo un chosen,
      removed := restOf uo (chosen.map (·.i)),
      added := restOf un (chosen.map (·.j)) }

theorem matchFunctions_eq_core (old new : List FnEntry) (thr : Rat) :
    matchFunctions old new thr =
      matchCore (sortedNames (byName old)) (sortedNames (byName new))
        (lookup (byName old)) (lookup (byName new)) thr := rfl

theorem greedy_spec (R : Cand → Cand → Prop) (cs : List Cand) (hR : cs.Pairwise R)
    (uO uN : List Nat) (acc : List Cand) :
    ∃ sel, greedy cs uO uN acc = acc.reverse ++ sel ∧ sel.Sublist cs ∧
      (∀ c ∈ sel, c.i ∉ uO ∧ c.j ∉ uN) ∧ (sel.map (·.i)).Nodup ∧ (sel.map (·.j)).Nodup ∧
      ∀ c ∈ cs, c ∈ sel ∨ c.i ∈ uO ∨ c.j ∈ uN ∨ ∃ c' ∈ sel, R c' c ∧ (c'.i = c.i ∨ c'.j = c.j) := by
  induction cs generalizing uO uN acc with
  | nil => exact ⟨[], by simp [greedy]⟩
  | cons c cs ih =>
    rw [List.pairwise_cons] at hR
    by_cases hu : (uO.contains c.i || uN.contains c.j) = true
    · obtain ⟨sel, h1, h2, h3, h4, h5, h6⟩ := ih hR.2 uO uN acc
      refine ⟨sel, by rw [greedy, if_pos hu, h1], h2.cons _, h3, h4, h5, ?_⟩
      intro x hx
      rcases List.mem_cons.1 hx with rfl | hx
      · simp only [Bool.or_eq_true, List.contains_iff_mem] at hu
        rcases hu with hu | hu
        · exact Or.inr (Or.inl hu)
        · exact Or.inr (Or.inr (Or.inl hu))
      · exact h6 x hx
    · obtain ⟨sel, h1, h2, h3, h4, h5, h6⟩ := ih hR.2 (c.i :: uO) (c.j :: uN) (c :: acc)
      have hu' : c.i ∉ uO ∧ c.j ∉ uN := by
        simpa [List.contains_iff_mem, not_or] using hu
      refine ⟨c :: sel, by rw [greedy, if_neg hu, h1]; simp, h2.cons_cons _, ?_, ?_, ?_, ?_⟩
      · intro x hx
        rcases List.mem_cons.1 hx with rfl | hx
        · exact hu'
        · have := h3 x hx
          simp only [List.mem_cons, not_or] at this
          exact ⟨this.1.2, this.2.2⟩
      · simp only [List.map_cons, List.nodup_cons]
        refine ⟨?_, h4⟩
        intro hm
        obtain ⟨x, hx, hxe⟩ := List.mem_map.1 hm
        have := (h3 x hx).1
        simp only [List.mem_cons, not_or] at this
        exact this.1 hxe
      · simp only [List.map_cons, List.nodup_cons]
        refine ⟨?_, h5⟩
        intro hm
        obtain ⟨x, hx, hxe⟩ := List.mem_map.1 hm
        have := (h3 x hx).2
        simp only [List.mem_cons, not_or] at this
        exact this.1 hxe
      · intro x hx
        rcases List.mem_cons.1 hx with rfl | hx
        · exact Or.inl (by simp)
        · rcases h6 x hx with h | h | h | ⟨c', hc', hr, he⟩
          · exact Or.inl (List.mem_cons_of_mem _ h)
          · rcases List.mem_cons.1 h with h | h
            · exact Or.inr (Or.inr (Or.inr ⟨c, by simp, hR.1 x hx, Or.inl h.symm⟩))
            · exact Or.inr (Or.inl h)
          · rcases List.mem_cons.1 h with h | h
            · exact Or.inr (Or.inr (Or.inr ⟨c, by simp, hR.1 x hx, Or.inr h.symm⟩))
            · exact Or.inr (Or.inr (Or.inl h))
          · exact Or.inr (Or.inr (Or.inr ⟨c', List.mem_cons_of_mem _ hc', hr, he⟩))

/-- the candidate order, spelled out: descending similarity, then "same fingerprint first" -/
theorem candLe_iff (a b : Cand) :
    candLe a b = true ↔ b.sim ≤ a.sim ∧ (a.sim = b.sim → b.same = true → a.same = true) := by
  simp only [candLe, candLt, Bool.not_eq_true', Bool.or_eq_false_iff, Bool.and_eq_false_iff,
    decide_eq_false_iff_not, Bool.not_eq_false', Rat.not_lt]
  constructor
  · rintro ⟨h1, h2⟩
    refine ⟨h1, fun he hb => ?_⟩
    rcases h2 with (h2 | h2) | h2
    · exact absurd he.symm h2
    · rw [hb] at h2; cases h2
    · exact h2
  · rintro ⟨h1, h2⟩
    refine ⟨h1, ?_⟩
    by_cases he : b.sim = a.sim
    · cases hb : b.same
      · exact Or.inl (Or.inr rfl)
      · exact Or.inr (h2 he.symm hb)
    · exact Or.inl (Or.inl he)

theorem candLe_trans (a b c : Cand) : candLe a b = true → candLe b c = true → candLe a c = true := by
  simp only [candLe_iff]
  rintro ⟨h1, h2⟩ ⟨h3, h4⟩
  refine ⟨Rat.le_trans h3 h1, fun he hc => ?_⟩
  have hab : a.sim = b.sim := Rat.le_antisymm (he ▸ h3) h1
  exact h2 hab (h4 (hab ▸ he) hc)

theorem candLe_total (a b : Cand) : (candLe a b || candLe b a) = true := by
  simp only [Bool.or_eq_true, candLe_iff]
  rcases Rat.le_total (a := a.sim) (b := b.sim) with h | h
  · by_cases h' : b.sim ≤ a.sim
    · have he : a.sim = b.sim := Rat.le_antisymm h h'
      cases ha : a.same
      · exact Or.inr ⟨h, fun _ h => by cases h⟩
      · exact Or.inl ⟨h', fun _ _ => rfl⟩
    · exact Or.inr ⟨h, fun he => absurd (he ▸ Rat.le_refl) h'⟩
  · by_cases h' : a.sim ≤ b.sim
    · have he : a.sim = b.sim := Rat.le_antisymm h' h
      cases ha : a.same
      · exact Or.inr ⟨h', fun _ h => by cases h⟩
      · exact Or.inl ⟨h, fun _ _ => rfl⟩
    · exact Or.inl ⟨h, fun he => absurd (he ▸ Rat.le_refl) h'⟩

/-- the selection made by the matcher; a candidate that was not chosen is blocked by a chosen one
    that the candidate order places no later -/
theorem chosenOf_spec' (uo un : List FnEntry) (thr : Rat) :
    (∀ c ∈ chosenOf uo un thr, c ∈ candidates uo un thr) ∧
    ((chosenOf uo un thr).map (·.i)).Nodup ∧ ((chosenOf uo un thr).map (·.j)).Nodup ∧
    ∀ c ∈ candidates uo un thr, c ∈ chosenOf uo un thr ∨
      ∃ c' ∈ chosenOf uo un thr, candLe c' c = true ∧ (c'.i = c.i ∨ c'.j = c.j) := by
  obtain ⟨sel, h1, h2, _, h4, h5, h6⟩ :=
    greedy_spec (fun a b => candLe a b = true) _
      (List.pairwise_mergeSort candLe_trans candLe_total (candidates uo un thr)) [] [] []
  have he : chosenOf uo un thr = sel := by simpa [chosenOf] using h1
  rw [he]
  refine ⟨fun c hc => List.mem_mergeSort.1 (h2.subset hc), h4, h5, ?_⟩
  intro c hc
  rcases h6 c (List.mem_mergeSort.2 hc) with h | h | h | ⟨c', hc', hr, he⟩
  · exact Or.inl h
  · simp at h
  · simp at h
  · exact Or.inr ⟨c', hc', hr, he⟩

/-- the selection made by the matcher -/
theorem chosenOf_spec (uo un : List FnEntry) (thr : Rat) :
    (∀ c ∈ chosenOf uo un thr, c ∈ candidates uo un thr) ∧
    ((chosenOf uo un thr).map (·.i)).Nodup ∧ ((chosenOf uo un thr).map (·.j)).Nodup ∧
    ∀ c ∈ candidates uo un thr, c ∈ chosenOf uo un thr ∨
      ∃ c' ∈ chosenOf uo un thr, c.sim ≤ c'.sim ∧ (c'.i = c.i ∨ c'.j = c.j) := by
  obtain ⟨h1, h2, h3, h4⟩ := chosenOf_spec' uo un thr
  refine ⟨h1, h2, h3, fun c hc => ?_⟩
  rcases h4 c hc with h | ⟨c', hc', hr, he⟩
  · exact Or.inl h
  · exact Or.inr ⟨c', hc', ((candLe_iff _ _).1 hr).1, he⟩

theorem mem_candidates {uo un : List FnEntry} {thr : Rat} {c : Cand} :
    c ∈ candidates uo un thr ↔
      ∃ o w ot nt, uo[c.i]? = some o ∧ un[c.j]? = some w ∧ o.topo = some ot ∧ w.topo = some nt ∧
        fuzzyHash ot = fuzzyHash nt ∧ c.sim = topoSimilarity ot nt ∧ thr ≤ c.sim ∧
        c.same = decide (o.fp = w.fp) := by
  unfold candidates
  simp only [List.mem_flatMap, Prod.exists, List.mem_zipIdx_iff_getElem?]
  constructor
  · rintro ⟨o, i, hoi, hc⟩
    cases hot : o.topo with
    | none => simp [hot] at hc
    | some ot =>
      simp only [hot, List.mem_filterMap, Prod.exists, List.mem_zipIdx_iff_getElem?] at hc
      obtain ⟨w, j, hwj, hc⟩ := hc
      cases hnt : w.topo with
      | none => simp [hnt] at hc
      | some nt =>
        simp only [hnt] at hc
        split_ifs at hc with hf ht
        simp only [Option.some.injEq] at hc
        subst hc
        exact ⟨o, w, ot, nt, hoi, hwj, hot, hnt, hf, rfl, ht, rfl⟩
  · rintro ⟨o, w, ot, nt, hoi, hwj, hot, hnt, hf, hs, ht, hsame⟩
    refine ⟨o, c.i, hoi, ?_⟩
    simp only [hot, List.mem_filterMap, Prod.exists, List.mem_zipIdx_iff_getElem?]
    refine ⟨w, c.j, hwj, ?_⟩
    simp only [hnt, hf, if_true]
    rw [if_pos (hs ▸ ht)]
    cases c
    simp_all

theorem zipIdx_filterMap_eq_range {α : Type} (xs : List α) (g : Nat → Bool) :
    xs.zipIdx.filterMap (fun (o, i) => if g i then none else some o) =
      (List.range xs.length).filterMap (fun i => if g i then none else xs[i]?) := by
  have h : xs.zipIdx.map (fun p => (some p.1, p.2)) = (List.range xs.length).map (fun i => (xs[i]?, i)) := by
    apply List.ext_getElem
    · simp
    · intro m h1 h2
      simp only [List.length_map, List.length_zipIdx] at h1
      simp [List.getElem?_eq_getElem h1]
  have h1 : xs.zipIdx.filterMap (fun (o, i) => if g i then none else some o) =
      (xs.zipIdx.map (fun p => (some p.1, p.2))).filterMap (fun q => if g q.2 then none else q.1) := by
    rw [List.filterMap_map]; rfl
  rw [h1, h, List.filterMap_map]; rfl

theorem range_filterMap_getElem? {α : Type} (xs : List α) :
    (List.range xs.length).filterMap (fun i => xs[i]?) = xs := by
  have h : (List.range xs.length).map (fun i => xs[i]?) = xs.map some := by
    apply List.ext_getElem
    · simp
    · intro m h1 h2
      simp only [List.length_map, List.length_range] at h1
      simp [List.getElem?_eq_getElem h1]
  have : (List.range xs.length).filterMap (fun i => xs[i]?) =
      ((List.range xs.length).map (fun i => xs[i]?)).filterMap id := by
    rw [List.filterMap_map]; rfl
  rw [this, h, List.filterMap_map]
  simp

/-- picking the entries at pairwise distinct valid indices and keeping the rest is a partition -/
theorem select_perm {α : Type} (xs : List α) (I : List Nat) (hI : I.Nodup) (hlt : ∀ i ∈ I, i < xs.length) :
    (I.filterMap (fun i => xs[i]?) ++
      xs.zipIdx.filterMap (fun (o, i) => if I.contains i then none else some o)).Perm xs := by
  rw [zipIdx_filterMap_eq_range xs (fun i => I.contains i)]
  have h2 : (List.range xs.length).filterMap (fun i => if I.contains i then none else xs[i]?) =
      ((List.range xs.length).filter (fun i => !I.contains i)).filterMap (fun i => xs[i]?) := by
    rw [List.filterMap_filter]
    congr 1
    funext i
    cases I.contains i <;> simp
  have h3 : I.Perm ((List.range xs.length).filter (fun i => I.contains i)) := by
    rw [List.perm_ext_iff_of_nodup hI (List.nodup_range.filter _)]
    intro a
    simp only [List.mem_filter, List.mem_range, List.contains_iff_mem]
    exact ⟨fun h => ⟨hlt a h, h⟩, fun h => h.2⟩
  rw [h2]
  refine ((h3.filterMap _).append_right _).trans ?_
  rw [← List.filterMap_append]
  refine ((List.filter_append_perm _ _).filterMap _).trans ?_
  rw [range_filterMap_getElem?]

theorem fuzzyOf_map_old (uo un : List FnEntry) (chosen : List Cand)
    (hv : ∀ c ∈ chosen, c.i < uo.length ∧ c.j < un.length) :
    (fuzzyOf uo un chosen).map (·.old) = (chosen.map (·.i)).filterMap (fun i => uo[i]?) := by
  induction chosen with
  | nil => simp [fuzzyOf]
  | cons c cs ih =>
    have := hv c (by simp)
    have ih' := ih (fun x hx => hv x (List.mem_cons_of_mem _ hx))
    simp only [fuzzyOf] at ih' ⊢
    simp [List.getElem?_eq_getElem this.1, List.getElem?_eq_getElem this.2, ih']

theorem fuzzyOf_map_new (uo un : List FnEntry) (chosen : List Cand)
    (hv : ∀ c ∈ chosen, c.i < uo.length ∧ c.j < un.length) :
    (fuzzyOf uo un chosen).map (·.new) = (chosen.map (·.j)).filterMap (fun j => un[j]?) := by
  induction chosen with
  | nil => simp [fuzzyOf]
  | cons c cs ih =>
    have := hv c (by simp)
    have ih' := ih (fun x hx => hv x (List.mem_cons_of_mem _ hx))
    simp only [fuzzyOf] at ih' ⊢
    simp [List.getElem?_eq_getElem this.1, List.getElem?_eq_getElem this.2, ih']

theorem mem_fuzzyOf {uo un : List FnEntry} {chosen : List Cand} {p : Pair} :
    p ∈ fuzzyOf uo un chosen ↔
      ∃ c ∈ chosen, uo[c.i]? = some p.old ∧ un[c.j]? = some p.new ∧ p.sim = c.sim ∧ p.byName = false := by
  unfold fuzzyOf
  simp only [List.mem_filterMap]
  constructor
  · rintro ⟨c, hc, h⟩
    refine ⟨c, hc, ?_⟩
    split at h
    · rename_i o w ho hw
      simp only [Option.some.injEq] at h
      subst h
      exact ⟨ho, hw, rfl, rfl⟩
    · simp at h
  · rintro ⟨c, hc, ho, hw, hs, hb⟩
    refine ⟨c, hc, ?_⟩
    rw [ho, hw]
    cases p
    simp_all

theorem cand_valid {uo un : List FnEntry} {thr : Rat} {c : Cand} (h : c ∈ candidates uo un thr) :
    c.i < uo.length ∧ c.j < un.length := by
  obtain ⟨o, w, _, _, h1, h2, _⟩ := mem_candidates.1 h
  exact ⟨(List.getElem?_eq_some_iff.1 h1).1, (List.getElem?_eq_some_iff.1 h2).1⟩

/-- old side of the shape phase: paired and left-over entries partition `uo` -/
theorem fuzzy_old_perm (uo un : List FnEntry) (thr : Rat) :
    ((fuzzyOf uo un (chosenOf uo un thr)).map (·.old) ++
      restOf uo ((chosenOf uo un thr).map (·.i))).Perm uo := by
  obtain ⟨h1, h2, h3, _⟩ := chosenOf_spec uo un thr
  rw [fuzzyOf_map_old uo un _ (fun c hc => cand_valid (h1 c hc))]
  refine select_perm uo _ h2 ?_
  intro i hi
  obtain ⟨c, hc, rfl⟩ := List.mem_map.1 hi
  exact (cand_valid (h1 c hc)).1

theorem fuzzy_new_perm (uo un : List FnEntry) (thr : Rat) :
    ((fuzzyOf uo un (chosenOf uo un thr)).map (·.new) ++
      restOf un ((chosenOf uo un thr).map (·.j))).Perm un := by
  obtain ⟨h1, h2, h3, _⟩ := chosenOf_spec uo un thr
  rw [fuzzyOf_map_new uo un _ (fun c hc => cand_valid (h1 c hc))]
  refine select_perm un _ h3 ?_
  intro i hi
  obtain ⟨c, hc, rfl⟩ := List.mem_map.1 hi
  exact (cand_valid (h1 c hc)).2

/-- what the matcher needs to know about one side: sorted names + lookup -/
structure Side (names : List Str) (lk : Str → Option FnEntry) : Prop where
  wf : ∀ n e, lk n = some e → e.short = n
  mem : ∀ n, n ∈ names ↔ (lk n).isSome
  nodup : names.Nodup

theorem side_byName (l : List FnEntry) : Side (sortedNames (byName l)) (lookup (byName l)) where
  wf := fun _ _ h => (lookup_byName_some h).1
  mem := fun _ => by rw [mem_sortedNames, lookup_byName_isSome]
  nodup := sortedNames_nodup l

variable {oNames nNames : List Str} {lo ln : Str → Option FnEntry}

theorem directOf_old_short (so : Side oNames lo) (names : List Str) (hs : ∀ n ∈ names, n ∈ oNames) :
    (directOf names lo ln).map (·.old.short) = names.filter (fun n => (ln n).isSome) := by
  induction names with
  | nil => simp [directOf]
  | cons n ns ih =>
    have ih' := ih (fun x hx => hs x (List.mem_cons_of_mem _ hx))
    have hn := (so.mem n).1 (hs n (by simp))
    obtain ⟨e, he⟩ := Option.isSome_iff_exists.1 hn
    have hw := so.wf n e he
    simp only [directOf] at ih' ⊢
    cases hl : ln n with
    | none => simp [he, hl, ih']
    | some w => simp [he, hl, ih', hw]

theorem directOf_new_short (so : Side oNames lo) (sn : Side nNames ln) (names : List Str)
    (hs : ∀ n ∈ names, n ∈ oNames) :
    (directOf names lo ln).map (·.new.short) = names.filter (fun n => (ln n).isSome) := by
  induction names with
  | nil => simp [directOf]
  | cons n ns ih =>
    have ih' := ih (fun x hx => hs x (List.mem_cons_of_mem _ hx))
    have hn := (so.mem n).1 (hs n (by simp))
    obtain ⟨e, he⟩ := Option.isSome_iff_exists.1 hn
    simp only [directOf] at ih' ⊢
    cases hl : ln n with
    | none => simp [he, hl, ih']
    | some w => simp [he, hl, ih', sn.wf n w hl]

theorem unOf_short (so : Side oNames lo) (lother : Str → Option FnEntry) (names : List Str)
    (hs : ∀ n ∈ names, n ∈ oNames) :
    (unOf names lother lo).map FnEntry.short = names.filter (fun n => !(lother n).isSome) := by
  induction names with
  | nil => simp [unOf]
  | cons n ns ih =>
    have ih' := ih (fun x hx => hs x (List.mem_cons_of_mem _ hx))
    have hn := (so.mem n).1 (hs n (by simp))
    obtain ⟨e, he⟩ := Option.isSome_iff_exists.1 hn
    have hw := so.wf n e he
    simp only [unOf] at ih' ⊢
    cases hl : lother n with
    | none => simp [he, hl, ih', hw]
    | some w => simp [hl, ih']

theorem mem_unOf {lother lself : Str → Option FnEntry} {names : List Str} {e : FnEntry} :
    e ∈ unOf names lother lself ↔ ∃ n ∈ names, lother n = none ∧ lself n = some e := by
  unfold unOf
  simp only [List.mem_filterMap]
  constructor
  · rintro ⟨n, hn, h⟩
    refine ⟨n, hn, ?_⟩
    cases hl : lother n with
    | none => simpa [hl] using h
    | some w => simp [hl] at h
  · rintro ⟨n, hn, h1, h2⟩
    exact ⟨n, hn, by simp [h1, h2]⟩

theorem mem_directOf {names : List Str} {p : Pair} :
    p ∈ directOf names lo ln ↔ ∃ n ∈ names, lo n = some p.old ∧ ln n = some p.new ∧
      p.sim = (simOf p.old.topo p.new.topo).getD 1 ∧ p.byName = true := by
  unfold directOf
  simp only [List.mem_filterMap]
  constructor
  · rintro ⟨n, hn, h⟩
    refine ⟨n, hn, ?_⟩
    split at h
    · rename_i o w ho hw
      simp only [Option.some.injEq] at h
      subst h
      exact ⟨ho, hw, rfl, rfl⟩
    · simp at h
  · rintro ⟨n, hn, ho, hw, hs, hb⟩
    refine ⟨n, hn, ?_⟩
    rw [ho, hw]
    cases p
    simp_all

theorem core_old_partition (so : Side oNames lo) (thr : Rat) :
    ((matchCore oNames nNames lo ln thr).matched.map (·.old.short) ++
      (matchCore oNames nNames lo ln thr).removed.map FnEntry.short).Perm oNames := by
  have hd := directOf_old_short (ln := ln) so oNames (fun _ h => h)
  have hu := unOf_short so ln oNames (fun _ h => h)
  have hp := List.filter_append_perm (fun n => (ln n).isSome) oNames
  unfold matchCore
  simp only
  split_ifs with hE
  · simp only [hd, hu]; exact hp
  · simp only [List.map_append, List.append_assoc]
    have hf := (fuzzy_old_perm (unOf oNames ln lo) (unOf nNames lo ln) thr).map FnEntry.short
    simp only [List.map_append, List.map_map] at hf
    refine (List.Perm.append_left _ hf).trans ?_
    rw [hd, hu]; exact hp

theorem core_new_partition (so : Side oNames lo) (sn : Side nNames ln) (thr : Rat) :
    ((matchCore oNames nNames lo ln thr).matched.map (·.new.short) ++
      (matchCore oNames nNames lo ln thr).added.map FnEntry.short).Perm nNames := by
  have hd := directOf_new_short so sn oNames (fun _ h => h)
  have hu := unOf_short sn lo nNames (fun _ h => h)
  have hp := List.filter_append_perm (fun n => (lo n).isSome) nNames
  have hq : (oNames.filter (fun n => (ln n).isSome)).Perm (nNames.filter (fun n => (lo n).isSome)) := by
    rw [List.perm_ext_iff_of_nodup (so.nodup.filter _) (sn.nodup.filter _)]
    intro a
    simp only [List.mem_filter, so.mem, sn.mem]
    exact And.comm
  unfold matchCore
  simp only
  split_ifs with hE
  · simp only [hd, hu]; exact (hq.append_right _).trans hp
  · simp only [List.map_append, List.append_assoc]
    have hf := (fuzzy_new_perm (unOf oNames ln lo) (unOf nNames lo ln) thr).map FnEntry.short
    simp only [List.map_append, List.map_map] at hf
    refine (List.Perm.append_left _ hf).trans ?_
    rw [hd, hu]; exact (hq.append_right _).trans hp

variable {oNames nNames : List Str} {lo ln : Str → Option FnEntry}

theorem fuzzyOf_nonempty {uo un : List FnEntry} {thr : Rat} {p : Pair}
    (h : p ∈ fuzzyOf uo un (chosenOf uo un thr)) : uo ≠ [] ∧ un ≠ [] := by
  obtain ⟨c, hc, _⟩ := mem_fuzzyOf.1 h
  have := cand_valid ((chosenOf_spec uo un thr).1 c hc)
  constructor
  · rintro rfl; simp at this
  · rintro rfl; simp at this

theorem mem_core_matched {thr : Rat} {p : Pair} :
    p ∈ (matchCore oNames nNames lo ln thr).matched ↔
      p ∈ directOf oNames lo ln ∨
      p ∈ fuzzyOf (unOf oNames ln lo) (unOf nNames lo ln) (chosenOf (unOf oNames ln lo) (unOf nNames lo ln) thr) := by
  unfold matchCore
  simp only
  split_ifs with hE
  · constructor
    · exact Or.inl
    · rintro (h | h)
      · exact h
      · have := fuzzyOf_nonempty h
        simp only [Bool.or_eq_true, List.isEmpty_iff] at hE
        rcases hE with hE | hE
        · exact absurd hE this.1
        · exact absurd hE this.2
  · simp

/-! ### byte order on strings is a total order -/

theorem strLe_trans (a b c : Str) : strLe a b = true → strLe b c = true → strLe a c = true := by
  simp only [strLe, decide_eq_true_eq]
  exact List.le_trans

theorem strLe_total (a b : Str) : (strLe a b || strLe b a) = true := by
  simp only [strLe, Bool.or_eq_true, decide_eq_true_eq]
  exact List.le_total _ _

theorem strLe_antisymm (a b : Str) : strLe a b = true → strLe b a = true → a = b := by
  simp only [strLe, decide_eq_true_eq]
  intro h1 h2
  have := List.le_antisymm h1 h2
  exact List.map_injective_iff.2 (fun x y h => Char.toNat_inj.1 h) this

theorem sortStrs_perm_eq {l l' : List Str} (h : l.Perm l') : sortStrs l = sortStrs l' := by
  unfold sortStrs
  refine List.Perm.eq_of_pairwise (le := fun a b => strLe a b = true) (fun a b _ _ => strLe_antisymm a b)
    (List.pairwise_mergeSort strLe_trans strLe_total l) (List.pairwise_mergeSort strLe_trans strLe_total l') ?_
  exact (List.mergeSort_perm _ _).trans (h.trans (List.mergeSort_perm _ _).symm)

theorem sortedNames_perm_eq {l l' : List FnEntry} (hl : (l.map FnEntry.short).Nodup) (h : l.Perm l') :
    sortedNames (byName l) = sortedNames (byName l') := by
  have hl' : (l'.map FnEntry.short).Nodup := (h.map _).nodup_iff.1 hl
  unfold sortedNames
  apply sortStrs_perm_eq
  rw [byName_of_nodup l hl, byName_of_nodup l' hl']
  simpa [Function.comp_def] using h.map FnEntry.short

theorem lookup_perm_eq {l l' : List FnEntry} (hl : (l.map FnEntry.short).Nodup) (h : l.Perm l') :
    lookup (byName l) = lookup (byName l') := by
  have hl' : (l'.map FnEntry.short).Nodup := (h.map _).nodup_iff.1 hl
  funext n
  apply Option.ext
  intro e
  constructor
  · intro he
    obtain ⟨h1, h2⟩ := lookup_byName_some he
    subst h1
    exact lookup_byName_of_nodup hl' (h.mem_iff.1 h2)
  · intro he
    obtain ⟨h1, h2⟩ := lookup_byName_some he
    subst h1
    exact lookup_byName_of_nodup hl (h.mem_iff.2 h2)

theorem matchFunctions_perm {old old' new new' : List FnEntry} (thr : Rat)
    (ho : (old.map FnEntry.short).Nodup) (hn : (new.map FnEntry.short).Nodup)
    (hpo : old.Perm old') (hpn : new.Perm new') :
    matchFunctions old new thr = matchFunctions old' new' thr := by
  rw [matchFunctions_eq_core, matchFunctions_eq_core, sortedNames_perm_eq ho hpo, sortedNames_perm_eq hn hpn,
    lookup_perm_eq ho hpo, lookup_perm_eq hn hpn]

theorem length_filter_add_not {α : Type} (p : α → Bool) (l : List α) :
    (l.filter p).length + (l.filter (fun x => !p x)).length = l.length := by
  have := (List.filter_append_perm p l).length_eq
  simpa using this

end Sfw.DiffReport
