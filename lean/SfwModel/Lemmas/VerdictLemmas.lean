/-
  Helper lemmas for Props/C04Verdict.lean: from "the zipper accepts" (every instruction paired, every
  pair equivalent, `enforceControlFlow` undoes nothing) to the block-by-block isomorphism the
  simulation of Lemmas/SemIsoLemmas.lean needs.  PROOF ONLY.

-/
import SfwModel.Model.Canon.SemIso
import SfwModel.Model.ZipperCF
import SfwModel.Model.Canon.Verdict
import SfwModel.Lemmas.SemView
import SfwModel.Lemmas.SemIsoLemmas
import SfwModel.Lemmas.ZipperCFLemmas
import Mathlib.Data.List.Sort
import Mathlib.Data.List.Perm.Basic
import Mathlib.Data.List.Perm.Subperm
import Mathlib.Data.List.Nodup
namespace Sfw.Canon.Sem
open Sfw.Canon Sfw.ZipperCF

open Verdict

/-! ### lists -/

/-- `n` different numbers below `n` are all the numbers below `n` -/
theorem mem_of_nodup_of_lt (l : List Nat) (n : Nat) (hnd : l.Nodup) (hlt : ∀ x ∈ l, x < n)
    (hlen : l.length = n) (y : Nat) (hy : y < n) : y ∈ l := by
  have hsub : l ⊆ List.range n := fun x hx => List.mem_range.mpr (hlt x hx)
  have hperm : l.Perm (List.range n) :=
    (List.subperm_of_subset hnd hsub).perm_of_length_le (by simp [hlen])
  exact hperm.mem_iff.mpr (List.mem_range.mpr hy)

/-- a relation that holds from every element to every later one holds pairwise -/
theorem pairwise_of_split {α : Type} (R : α → α → Prop) :
    ∀ (l : List α), (∀ pre x rest, l = pre ++ x :: rest → ∀ y ∈ rest, R x y) → l.Pairwise R
  | [], _ => List.Pairwise.nil
  | a :: t, h => by
    refine List.Pairwise.cons (fun y hy => h [] a t rfl y hy) (pairwise_of_split R t ?_)
    intro pre x rest e y hy
    exact h (a :: pre) x rest (by rw [e]; rfl) y hy

/-- an order-preserving map of one duplicate-free list onto another lists its images in order -/
theorem map_eq_of_increasing_onto (L L' : List Nat) (φ : Nat → Nat) (hnd' : L'.Nodup)
    (hmem : ∀ x ∈ L, φ x ∈ L')
    (hmono : L.Pairwise (fun x y => List.idxOf (φ x) L' < List.idxOf (φ y) L'))
    (hsurj : ∀ y ∈ L', ∃ x ∈ L, φ x = y) : L.map φ = L' := by
  have hp1 : (L.map φ).Pairwise (fun a b => List.idxOf a L' < List.idxOf b L') :=
    List.pairwise_map.mpr hmono
  have hp2 : L'.Pairwise (fun a b => List.idxOf a L' < List.idxOf b L') := by
    rw [List.pairwise_iff_getElem]
    intro i j hi hj hij
    rw [hnd'.idxOf_getElem i hi, hnd'.idxOf_getElem j hj]
    exact hij
  have hnd1 : (L.map φ).Nodup := by
    unfold List.Nodup
    refine hp1.imp ?_
    intro a b hab e
    subst e
    exact Nat.lt_irrefl _ hab
  have hperm : (L.map φ).Perm L' := by
    rw [List.perm_ext_iff_of_nodup hnd1 hnd']
    intro a
    constructor
    · intro ha
      obtain ⟨x, hx, rfl⟩ := List.mem_map.mp ha
      exact hmem x hx
    · intro ha
      obtain ⟨x, hx, rfl⟩ := hsurj a ha
      exact List.mem_map.mpr ⟨x, hx, rfl⟩
  refine List.Perm.eq_of_pairwise ?_ hp1 hp2 hperm
  intro a b _ _ h1 h2
  exact absurd h1 (Nat.lt_asymm h2)

/-! ### the layout of a function -/

/-- the ids of a block's instructions, in order -/
def idsOf (bl : Block) : List Nat := bl.instrs.map (·.id)

theorem lay_blocks (f : Func) (b : Nat) (bl : Block) (h : f.blocks[b]? = some bl) :
    (layoutOf f).blocks[b]? = some (idsOf bl) ∧ (layoutOf f).blocks.getD b [] = idsOf bl ∧
    (layoutOf f).succs.getD b [] = bl.succs ∧ (layoutOf f).preds.getD b [] = bl.preds := by
  simp only [layoutOf, Array.getD_eq_getD_getElem?, Array.getElem?_map, h, Option.map_some,
    Option.getD_some, idsOf, and_self]

theorem lay_size (f : Func) : (layoutOf f).blocks.size = f.blocks.size := by
  simp [layoutOf]

theorem locate_go_spec (id : Nat) : ∀ (bs : List (List Nat)) (k kb p : Nat),
    Layout.locate.go id k bs = some (kb, p) →
    ∃ j L, kb = k + j ∧ bs[j]? = some L ∧ L.idxOf? id = some p
  | [], _, _, _, h => by simp [Layout.locate.go] at h
  | L :: bs, k, kb, p, h => by
    rw [Layout.locate.go] at h
    cases hL : L.idxOf? id with
    | some q =>
      rw [hL] at h
      simp only [Option.some.injEq, Prod.mk.injEq] at h
      exact ⟨0, L, by omega, rfl, h.2 ▸ hL⟩
    | none =>
      rw [hL] at h
      obtain ⟨j, L2, e, hj, hp⟩ := locate_go_spec id bs (k + 1) kb p h
      exact ⟨j + 1, L2, by omega, by simpa using hj, hp⟩

/-- `locate` finds a block that holds the id, and the position of the id in it -/
theorem locate_spec (g : Func) (d nb mp : Nat) (h : (layoutOf g).locate d = some (nb, mp)) :
    ∃ bl', g.blocks[nb]? = some bl' ∧ (idsOf bl').idxOf? d = some mp := by
  unfold Layout.locate at h
  obtain ⟨j, L, e, hj, hp⟩ := locate_go_spec d _ 0 nb mp h
  have e' : nb = j := by omega
  subst e'
  simp only [layoutOf, Array.getElem?_toList, Array.getElem?_map] at hj
  cases hb : g.blocks[nb]? with
  | none => rw [hb] at hj; cases hj
  | some bl' =>
    rw [hb] at hj
    simp only [Option.map_some, Option.some.injEq] at hj
    exact ⟨bl', rfl, by unfold idsOf; rw [hj]; exact hp⟩

theorem idxOf?_spec {l : List Nat} {a p : Nat} (hnd : l.Nodup) (h : l.idxOf? a = some p) :
    a ∈ l ∧ l.idxOf a = p := by
  obtain ⟨hp, e, _⟩ := List.idxOf?_eq_some_iff.mp h
  refine ⟨e ▸ List.getElem_mem hp, ?_⟩
  rw [← e]
  exact hnd.idxOf_getElem p hp

/-! ### the pairs of a matching -/

theorem pairsOf_nodup (m : Matching) : ((pairsOf m).map Prod.fst).Nodup := by
  have : (pairsOf m).map Prod.fst = List.range m.instr.size := by
    unfold pairsOf
    rw [List.map_map]
    exact List.map_id' _ |>.symm ▸ (by simp)
  rw [this]
  exact List.nodup_range

theorem partner_pairsOf (m : Matching) (d d' : Nat) (h : m.im d = some d') :
    partner (pairsOf m) d = some d' := by
  unfold Matching.im at h
  have hl := lt_of_getElem?_some h
  apply partner_of_mem _ (pairsOf_nodup m)
  unfold pairsOf
  rw [List.mem_map]
  refine ⟨d, List.mem_range.mpr hl, ?_⟩
  rw [Array.getD_eq_getD_getElem?, h]
  rfl

/-! ### what the checks give -/

structure Shape (f : Func) : Prop where
  last : ∀ bl ∈ f.blocks.toList, ∃ t, bl.instrs.getLast? = some t ∧ terminatorKind t.kind = true
  notLast : ∀ bl ∈ f.blocks.toList, ∀ i ∈ bl.instrs.dropLast, terminatorKind i.kind = false
  ids : f.blocks.toList.flatMap idsOf = List.range f.instrs.size

theorem Shape.of_shapeCheck (f : Func) (h : shapeCheck f = true) : Shape f := by
  unfold shapeCheck at h
  simp only [Bool.and_eq_true, List.all_eq_true, beq_iff_eq, Bool.not_eq_true'] at h
  refine ⟨fun bl hbl => ?_, fun bl hbl => (h.1 bl hbl).2, h.2⟩
  have := (h.1 bl hbl).1
  cases hl : bl.instrs.getLast? with
  | none => rw [hl] at this; cases this
  | some t => rw [hl] at this; exact ⟨t, rfl, this⟩

structure ZA (f g : Func) (m : Matching) : Prop where
  wf : WF f
  wg : WF g
  sf : Shape f
  sg : Shape g
  bsz : g.blocks.size = f.blocks.size
  isz : g.instrs.size = f.instrs.size
  msz : m.instr.size = f.instrs.size
  mbsz : m.block.size = f.blocks.size
  imInj : ∀ a b c, m.im a = some c → m.im b = some c → a = b
  imLt : ∀ d d', m.im d = some d' → d' < f.instrs.size
  pair : ∀ d, d < f.instrs.size → ∃ i i' d', f.instrs[d]? = some i ∧ m.im d = some d' ∧
    g.instrs[d']? = some i' ∧ instrMatches m i i' = true
  bad : badPairs (layoutOf f) (layoutOf g) (pairsOf m) = []
  bo : ∀ b, b < f.blocks.size → ∃ nb, m.bm b = some nb ∧
    blockOf (layoutOf f) (layoutOf g) (pairsOf m) b = some nb

theorem ZA.of_zipperCore (f g : Func) (m : Matching) (h : zipperCore f g m = true) : ZA f g m := by
  unfold zipperCore at h
  simp only [Bool.and_eq_true, beq_iff_eq] at h
  obtain ⟨⟨⟨⟨⟨⟨⟨⟨⟨⟨⟨⟨hwf, hwg⟩, hsf⟩, hsg⟩, hbs⟩, his⟩, hms⟩, hmb⟩, hinj⟩, hir⟩, hpair⟩, hbad⟩, hbo⟩ := h
  rw [Array.all_eq_true] at hir
  rw [List.all_eq_true] at hpair hbo
  refine ⟨WF.of_wfCheck f hwf, WF.of_wfCheck g hwg, Shape.of_shapeCheck f hsf, Shape.of_shapeCheck g hsg,
    hbs.symm, his.symm, hms, hmb, fun a b c ha hb => injectiveArr_spec _ hinj a b c ha hb, ?_, ?_,
    List.isEmpty_iff.mp hbad, ?_⟩
  · intro d d' hd
    unfold Matching.im at hd
    have hl := lt_of_getElem?_some hd
    have := hir d hl
    rw [Array.getElem?_eq_getElem hl] at hd
    cases hd
    rw [his]
    simpa using this
  · intro d hd
    have := hpair d (List.mem_range.mpr hd)
    split at this
    · rename_i i i' e1 e2
      cases hm : m.im d with
      | none => rw [hm] at e2; cases e2
      | some d' =>
        rw [hm] at e2
        exact ⟨i, i', d', e1, rfl, e2, this⟩
    · cases this
  · intro b hb
    have := hbo b (List.mem_range.mpr hb)
    simp only [Bool.and_eq_true, beq_iff_eq] at this
    cases hm : m.bm b with
    | none => rw [hm] at this; cases this.2
    | some nb => exact ⟨nb, rfl, hm ▸ this.1⟩

theorem mem_blocks_of_get {f : Func} {k : Nat} {bl : Block} (h : f.blocks[k]? = some bl) :
    bl ∈ f.blocks.toList := (mem_blocks_iff f bl).mpr ⟨k, h⟩

theorem Shape.ids_nodup {f : Func} (S : Shape f) {k : Nat} {bl : Block} (hk : f.blocks[k]? = some bl) :
    (idsOf bl).Nodup := by
  have hnd : (f.blocks.toList.flatMap idsOf).Nodup := S.ids ▸ List.nodup_range
  exact (List.nodup_flatMap.mp hnd).1 bl (mem_blocks_of_get hk)

theorem Shape.disjoint {f : Func} (S : Shape f) {k1 k2 : Nat} {b1 b2 : Block}
    (hk1 : f.blocks[k1]? = some b1) (hk2 : f.blocks[k2]? = some b2) (d : Nat)
    (h1 : d ∈ idsOf b1) (h2 : d ∈ idsOf b2) : k1 = k2 := by
  have hnd : (f.blocks.toList.flatMap idsOf).Nodup := S.ids ▸ List.nodup_range
  have hpw := (List.nodup_flatMap.mp hnd).2
  rw [List.pairwise_iff_getElem] at hpw
  have l1 := lt_of_getElem?_some hk1
  have l2 := lt_of_getElem?_some hk2
  have e1 : f.blocks.toList[k1]'(by simpa using l1) = b1 := by
    have := hk1; rw [Array.getElem?_eq_getElem l1] at this; simpa using this
  have e2 : f.blocks.toList[k2]'(by simpa using l2) = b2 := by
    have := hk2; rw [Array.getElem?_eq_getElem l2] at this; simpa using this
  rcases Nat.lt_trichotomy k1 k2 with hlt | heq | hgt
  · have := hpw k1 k2 (by simpa using l1) (by simpa using l2) hlt
    simp only [Function.onFun, e1, e2] at this
    exact absurd h2 (this h1)
  · exact heq
  · have := hpw k2 k1 (by simpa using l2) (by simpa using l1) hgt
    simp only [Function.onFun, e1, e2] at this
    exact absurd h1 (this h2)

theorem Shape.cover {f : Func} (S : Shape f) (d : Nat) (hd : d < f.instrs.size) :
    ∃ (k : Nat) (bl : Block), f.blocks[k]? = some bl ∧ d ∈ idsOf bl := by
  have : d ∈ f.blocks.toList.flatMap idsOf := S.ids ▸ List.mem_range.mpr hd
  obtain ⟨bl, hbl, hmem⟩ := List.mem_flatMap.mp this
  obtain ⟨k, hk⟩ := (mem_blocks_iff f bl).mp hbl
  exact ⟨k, bl, hk, hmem⟩

theorem Shape.mem_lt {f : Func} (S : Shape f) {k : Nat} {bl : Block} (hk : f.blocks[k]? = some bl)
    (d : Nat) (hd : d ∈ idsOf bl) : d < f.instrs.size := by
  have : d ∈ f.blocks.toList.flatMap idsOf := List.mem_flatMap.mpr ⟨bl, mem_blocks_of_get hk, hd⟩
  rw [S.ids] at this
  exact List.mem_range.mp this

/-- the only instruction of terminator kind in a block is its last one -/
theorem Shape.term_last {f : Func} (S : Shape f) {k : Nat} {bl : Block} (hk : f.blocks[k]? = some bl)
    (i : Instr) (hi : i ∈ bl.instrs) (ht : terminatorKind i.kind = true) :
    bl.instrs.getLast? = some i := by
  rcases mem_dropLast_or_last bl.instrs i hi with h | h
  · have := S.notLast bl (mem_blocks_of_get hk) i h
    rw [ht] at this
    cases this
  · exact h

/-! ### the walk of `enforceControlFlow` over one block -/

/-- the block map `enforceControlFlow` works with -/
abbrev boOf (f g : Func) (m : Matching) : Nat → Option Nat :=
  blockOf (layoutOf f) (layoutOf g) (pairsOf m)

theorem im_getD {m : Matching} {d d' : Nat} (h : m.im d = some d') : m.instr.getD d 0 = d' := by
  unfold Matching.im at h
  rw [Array.getD_eq_getD_getElem?, h]
  rfl

theorem ZA.im_some {f g : Func} {m : Matching} (Z : ZA f g m) (d : Nat) (hd : d < f.instrs.size) :
    m.im d = some (m.instr.getD d 0) := by
  obtain ⟨_, _, d', _, h, _, _⟩ := Z.pair d hd
  rw [im_getD h, h]

theorem idsOf_getLast {bl : Block} {t : Instr} (h : bl.instrs.getLast? = some t) :
    (idsOf bl).getLast? = some t.id := by
  unfold idsOf
  rw [List.getLast?_map, h]
  rfl

theorem ZA.walk {f g : Func} {m : Matching} (Z : ZA f g m) {b nb : Nat} {bl : Block}
    (hb : f.blocks[b]? = some bl) (hnb : m.bm b = some nb) (x : Nat) :
    x ∉ badInBlock (layoutOf f) (layoutOf g) (pairsOf m) (boOf f g m) b nb (idsOf bl) none := by
  have hlt := lt_of_getElem?_some hb
  obtain ⟨nb', hnb', hbo⟩ := Z.bo b hlt
  rw [hnb] at hnb'
  cases hnb'
  have hx : x ∉ badPairs (layoutOf f) (layoutOf g) (pairsOf m) := by rw [Z.bad]; exact List.not_mem_nil
  have := not_mem_badInBlock_of_not_mem_badPairs (layoutOf f) (layoutOf g) (pairsOf m) x b nb hx
    (by rw [lay_size]; exact hlt) hbo ?_
  · rw [(lay_blocks f b bl hb).2.1] at this
    exact this
  · rintro ⟨hb0, hn, hne⟩
    subst hb0
    obtain ⟨t, ht, _⟩ := Z.sf.last bl (mem_blocks_of_get hb)
    have := entry_mem_badPairs (layoutOf f) (layoutOf g) (pairsOf m) t.id nb
      (by rw [lay_size]; exact hlt) hn (by rw [(lay_blocks f 0 bl hb).2.1]; exact idsOf_getLast ht) hbo hne
    rw [Z.bad] at this
    cases this

/-- every instruction of an old block has its partner in the partner block; a phi brings the
    predecessor check with it -/
theorem ZA.instr_corr {f g : Func} {m : Matching} (Z : ZA f g m) {b nb : Nat} {bl : Block}
    (hb : f.blocks[b]? = some bl) (hnb : m.bm b = some nb) (i : Instr) (hi : i ∈ bl.instrs) :
    ∃ d' bl' mp, m.im i.id = some d' ∧ g.blocks[nb]? = some bl' ∧
      (layoutOf g).locate d' = some (nb, mp) ∧ d' ∈ idsOf bl' ∧ (idsOf bl').idxOf d' = mp ∧
      (i.kind = .Phi → edgesCorrespond (boOf f g m) bl.preds bl'.preds = true) := by
  have hmem : i.id ∈ idsOf bl := List.mem_map.mpr ⟨i, hi, rfl⟩
  have hd := Z.sf.mem_lt hb i.id hmem
  have him := Z.im_some i.id hd
  obtain ⟨mp, hloc, hphi⟩ := badInBlock_kept (layoutOf f) (layoutOf g) (pairsOf m) (boOf f g m) b nb i.id _
    (partner_pairsOf m _ _ him) (idsOf bl) none hmem (Z.walk hb hnb i.id)
  obtain ⟨bl', hb', hidx⟩ := locate_spec g _ nb mp hloc
  obtain ⟨h1, h2⟩ := idxOf?_spec (Z.sg.ids_nodup hb') hidx
  refine ⟨_, bl', mp, him, hb', hloc, h1, h2, fun hk => ?_⟩
  have := hphi ?_
  · rw [(lay_blocks f b bl hb).2.2.2, (lay_blocks g nb bl' hb').2.2.2] at this
    exact this
  · simp only [layoutOf, List.mem_map, List.mem_filter, beq_iff_eq]
    refine ⟨i, ⟨?_, hk⟩, rfl⟩
    have := (Z.wf.instr b bl hb i hi).2
    rw [Array.mem_toList_iff]
    exact Array.mem_of_getElem? this

theorem mem_instrs_of_id {bl : Block} {d : Nat} (h : d ∈ idsOf bl) : ∃ i ∈ bl.instrs, i.id = d := by
  obtain ⟨i, hi, e⟩ := List.mem_map.mp h
  exact ⟨i, hi, e⟩

/-- partners keep the order of the block, strictly -/
theorem ZA.order {f g : Func} {m : Matching} (Z : ZA f g m) {b nb : Nat} {bl bl' : Block}
    (hb : f.blocks[b]? = some bl) (hnb : m.bm b = some nb) (hb' : g.blocks[nb]? = some bl') :
    (idsOf bl).Pairwise (fun x y =>
      (idsOf bl').idxOf (m.instr.getD x 0) < (idsOf bl').idxOf (m.instr.getD y 0)) := by
  apply pairwise_of_split
  intro pre x rest e y hy
  have hndl := Z.sf.ids_nodup hb
  have hxm : x ∈ idsOf bl := by rw [e]; simp
  have hym : y ∈ idsOf bl := by rw [e]; simp [hy]
  have hxy : x ≠ y := by
    rw [e] at hndl
    have := (List.nodup_cons.mp (List.nodup_append.mp hndl).2.1).1
    intro exy
    exact this (exy ▸ hy)
  obtain ⟨ix, hix, rfl⟩ := mem_instrs_of_id hxm
  obtain ⟨iy, hiy, rfl⟩ := mem_instrs_of_id hym
  obtain ⟨x', blx, px, himx, hbx, hlocx, hmx, hpx, _⟩ := Z.instr_corr hb hnb ix hix
  obtain ⟨y', bly, py, himy, hby, hlocy, hmy, hpy, _⟩ := Z.instr_corr hb hnb iy hiy
  rw [hb'] at hbx hby
  cases hbx
  cases hby
  rw [im_getD himx, im_getD himy, hpx, hpy]
  have hle := badInBlock_order (layoutOf f) (layoutOf g) (pairsOf m) (boOf f g m) b nb ix.id x' px iy.id y' py
    (partner_pairsOf m _ _ himx) hlocx (partner_pairsOf m _ _ himy) hlocy rest hy pre none
    (e ▸ Z.walk hb hnb ix.id) (e ▸ Z.walk hb hnb iy.id)
  rcases Nat.lt_or_ge px py with h | h
  · exact h
  · exfalso
    have hpe : px = py := by omega
    have hx'y' : x' = y' := by
      have h1 := List.getElem_idxOf (List.idxOf_lt_length_iff.mpr hmx)
      have h2 := List.getElem_idxOf (List.idxOf_lt_length_iff.mpr hmy)
      rw [← h1, ← h2]
      simp only [hpx, hpy, hpe]
    exact hxy (Z.imInj _ _ _ himx (hx'y' ▸ himy))

/-- the successors of corresponding blocks correspond -/
theorem ZA.succs_corr {f g : Func} {m : Matching} (Z : ZA f g m) {b nb : Nat} {bl bl' : Block}
    (hb : f.blocks[b]? = some bl) (hnb : m.bm b = some nb) (hb' : g.blocks[nb]? = some bl') :
    edgesCorrespond (boOf f g m) bl.succs bl'.succs = true := by
  obtain ⟨t, ht, _⟩ := Z.sf.last bl (mem_blocks_of_get hb)
  have hlast := idsOf_getLast ht
  obtain ⟨init, hinit⟩ := List.getLast?_eq_some_iff.mp hlast
  have hmem : t.id ∈ idsOf bl := by rw [hinit]; simp
  have him := Z.im_some t.id (Z.sf.mem_lt hb t.id hmem)
  have := badInBlock_last (layoutOf f) (layoutOf g) (pairsOf m) (boOf f g m) b nb t.id _
    (partner_pairsOf m _ _ him) init none (hinit ▸ Z.walk hb hnb t.id)
  rw [(lay_blocks f b bl hb).2.2.1, (lay_blocks g nb bl' hb').2.2.1] at this
  exact this

/-! ### the block map is one-to-one and onto -/

/-- an array of `n` different numbers below `n` holds every number below `n` -/
theorem arr_surj (a : Array Nat) (n : Nat) (hsz : a.size = n)
    (hinj : ∀ (i j x : Nat), a[i]? = some x → a[j]? = some x → i = j)
    (hlt : ∀ (i x : Nat), a[i]? = some x → x < n) (y : Nat) (hy : y < n) : ∃ i : Nat, a[i]? = some y := by
  have hnd : a.toList.Nodup := by
    rw [List.nodup_iff_getElem?_ne_getElem?]
    intro i j hij hj e
    have hj' : j < a.size := by simpa using hj
    have hi' : i < a.size := by omega
    simp only [Array.getElem?_toList] at e
    have e2 : a[j]? = some a[j] := Array.getElem?_eq_getElem hj'
    have := hinj i j a[j] (e ▸ e2) e2
    omega
  have hmem := mem_of_nodup_of_lt a.toList n hnd
    (fun x hx => by
      obtain ⟨i, hi⟩ := List.mem_iff_getElem?.mp hx
      rw [Array.getElem?_toList] at hi
      exact hlt i x hi)
    (by simpa using hsz) y hy
  obtain ⟨i, hi⟩ := List.mem_iff_getElem?.mp hmem
  rw [Array.getElem?_toList] at hi
  exact ⟨i, hi⟩

theorem ZA.blk_some {f g : Func} {m : Matching} (Z : ZA f g m) {b nb : Nat} (hnb : m.bm b = some nb) :
    ∃ bl bl', f.blocks[b]? = some bl ∧ g.blocks[nb]? = some bl' := by
  have hlt : b < f.blocks.size := Z.mbsz ▸ lt_of_getElem?_some hnb
  have hb : f.blocks[b]? = some f.blocks[b] := Array.getElem?_eq_getElem hlt
  obtain ⟨t, ht, _⟩ := Z.sf.last _ (mem_blocks_of_get hb)
  obtain ⟨_, bl', _, _, hb', _⟩ := Z.instr_corr hb hnb t (List.mem_of_getLast? ht)
  exact ⟨_, bl', hb, hb'⟩

/-- the partner of a block's terminator is the terminator of the partner block -/
theorem ZA.term_image {f g : Func} {m : Matching} (Z : ZA f g m) {b nb : Nat} {bl bl' : Block}
    (hb : f.blocks[b]? = some bl) (hnb : m.bm b = some nb) (hb' : g.blocks[nb]? = some bl')
    (t : Instr) (ht : bl.instrs.getLast? = some t) :
    ∃ t', bl'.instrs.getLast? = some t' ∧ m.im t.id = some t'.id := by
  have htm := List.mem_of_getLast? ht
  obtain ⟨d', bl2, _, him, hb2, _, hmem, _, _⟩ := Z.instr_corr hb hnb t htm
  rw [hb'] at hb2
  cases hb2
  obtain ⟨t', ht', rfl⟩ := mem_instrs_of_id hmem
  refine ⟨t', ?_, him⟩
  have hft := (Z.wf.instr b bl hb t htm).2
  have hgt := (Z.wg.instr nb bl' hb' t' ht').2
  obtain ⟨i, i', d2, e1, e2, e3, hmatch⟩ := Z.pair t.id (lt_of_getElem?_some hft)
  rw [hft] at e1
  cases e1
  rw [him] at e2
  cases e2
  rw [hgt] at e3
  cases e3
  have hk := (instrMatches_spec hmatch).2.1
  obtain ⟨t0, ht0, htk⟩ := Z.sf.last bl (mem_blocks_of_get hb)
  rw [ht] at ht0
  cases ht0
  exact Z.sg.term_last hb' t' ht' (hk ▸ htk)

theorem ZA.bmInj {f g : Func} {m : Matching} (Z : ZA f g m) (a b c : Nat)
    (ha : m.bm a = some c) (hb : m.bm b = some c) : a = b := by
  obtain ⟨bla, bl', hfa, hg⟩ := Z.blk_some ha
  obtain ⟨blb, _, hfb, _⟩ := Z.blk_some hb
  obtain ⟨ta, hta, _⟩ := Z.sf.last bla (mem_blocks_of_get hfa)
  obtain ⟨tb, htb, _⟩ := Z.sf.last blb (mem_blocks_of_get hfb)
  obtain ⟨t1, h1, e1⟩ := Z.term_image hfa ha hg ta hta
  obtain ⟨t2, h2, e2⟩ := Z.term_image hfb hb hg tb htb
  rw [h1] at h2
  cases h2
  have hid : ta.id = tb.id := Z.imInj _ _ _ e1 e2
  exact Z.sf.disjoint hfa hfb ta.id (List.mem_map.mpr ⟨ta, List.mem_of_getLast? hta, rfl⟩)
    (List.mem_map.mpr ⟨tb, List.mem_of_getLast? htb, hid.symm⟩)

theorem ZA.bmLt {f g : Func} {m : Matching} (Z : ZA f g m) (b nb : Nat) (h : m.bm b = some nb) :
    nb < f.blocks.size := by
  obtain ⟨_, _, _, hg⟩ := Z.blk_some h
  exact Z.bsz ▸ lt_of_getElem?_some hg

theorem ZA.bmSurj {f g : Func} {m : Matching} (Z : ZA f g m) (nb : Nat) (h : nb < f.blocks.size) :
    ∃ b : Nat, m.bm b = some nb :=
  arr_surj m.block _ Z.mbsz Z.bmInj Z.bmLt nb h

theorem ZA.imSurj {f g : Func} {m : Matching} (Z : ZA f g m) (d' : Nat) (h : d' < f.instrs.size) :
    ∃ d : Nat, m.im d = some d' :=
  arr_surj m.instr _ Z.msz Z.imInj Z.imLt d' h

/-! ### corresponding blocks list corresponding instructions -/

theorem ZA.ids_map {f g : Func} {m : Matching} (Z : ZA f g m) {b nb : Nat} {bl bl' : Block}
    (hb : f.blocks[b]? = some bl) (hnb : m.bm b = some nb) (hb' : g.blocks[nb]? = some bl') :
    (idsOf bl).map (fun d => m.instr.getD d 0) = idsOf bl' := by
  apply map_eq_of_increasing_onto _ _ _ (Z.sg.ids_nodup hb')
  · intro x hx
    obtain ⟨i, hi, rfl⟩ := mem_instrs_of_id hx
    obtain ⟨d', bl2, _, him, hb2, _, hmem, _, _⟩ := Z.instr_corr hb hnb i hi
    rw [hb'] at hb2
    cases hb2
    rw [im_getD him]
    exact hmem
  · exact Z.order hb hnb hb'
  · intro y hy
    have hyl : y < f.instrs.size := Z.isz ▸ Z.sg.mem_lt hb' y hy
    obtain ⟨d, hd⟩ := Z.imSurj y hyl
    have hdl : d < f.instrs.size := Z.msz ▸ lt_of_getElem?_some hd
    obtain ⟨k, blk, hk, hdk⟩ := Z.sf.cover d hdl
    obtain ⟨nk, hnk, _⟩ := Z.bo k (lt_of_getElem?_some hk)
    obtain ⟨i, hi, rfl⟩ := mem_instrs_of_id hdk
    obtain ⟨d', blk', _, him, hk', _, hmem, _, _⟩ := Z.instr_corr hk hnk i hi
    rw [hd] at him
    cases him
    have e1 : nk = nb := Z.sg.disjoint hk' hb' y hmem hy
    subst e1
    have e2 : k = b := Z.bmInj _ _ _ hnk hnb
    subst e2
    rw [hb] at hk
    cases hk
    exact ⟨i.id, hdk, im_getD hd⟩

theorem instrsMatch_of (m : Matching) (φ : Nat → Nat) : ∀ (l l' : List Instr),
    l.map (fun i => φ i.id) = l'.map (·.id) →
    (∀ i ∈ l, ∀ i' ∈ l', i'.id = φ i.id → instrMatches m i i' = true) → instrsMatch m l l' = true
  | [], [], _, _ => rfl
  | [], _ :: _, h, _ => by simp at h
  | _ :: _, [], h, _ => by simp at h
  | i :: l, i' :: l', h, hall => by
    simp only [List.map_cons, List.cons.injEq] at h
    simp only [instrsMatch, Bool.and_eq_true]
    refine ⟨hall i List.mem_cons_self i' List.mem_cons_self h.1.symm, ?_⟩
    exact instrsMatch_of m φ l l' h.2 (fun j hj j' hj' e =>
      hall j (List.mem_cons_of_mem _ hj) j' (List.mem_cons_of_mem _ hj') e)

theorem ZA.instrs_match {f g : Func} {m : Matching} (Z : ZA f g m) {b nb : Nat} {bl bl' : Block}
    (hb : f.blocks[b]? = some bl) (hnb : m.bm b = some nb) (hb' : g.blocks[nb]? = some bl') :
    instrsMatch m bl.instrs bl'.instrs = true := by
  apply instrsMatch_of m (fun d => m.instr.getD d 0)
  · have := Z.ids_map hb hnb hb'
    unfold idsOf at this
    rw [List.map_map] at this
    exact this
  · intro i hi i' hi' e
    have hft := (Z.wf.instr b bl hb i hi).2
    have hgt := (Z.wg.instr nb bl' hb' i' hi').2
    obtain ⟨i0, i0', d2, e1, e2, e3, hmatch⟩ := Z.pair i.id (lt_of_getElem?_some hft)
    rw [hft] at e1
    cases e1
    rw [e, im_getD e2, e3] at hgt
    cases hgt
    exact hmatch

/-! ### edges -/

structure CFG (f : Func) : Prop where
  succ : ∀ (b : Nat) (bl : Block), f.blocks[b]? = some bl → ∀ s ∈ bl.succs,
    ∃ bs, f.blocks[s]? = some bs ∧ b ∈ bs.preds
  pred : ∀ (b : Nat) (bl : Block), f.blocks[b]? = some bl → ∀ p ∈ bl.preds, p < f.blocks.size

theorem CFG.of_cfgCheck (f : Func) (h : cfgCheck f = true) : CFG f := by
  unfold cfgCheck at h
  rw [List.all_eq_true] at h
  have hb : ∀ (b : Nat) (bl : Block), f.blocks[b]? = some bl →
      (∀ s ∈ bl.succs, ∃ bs, f.blocks[s]? = some bs ∧ b ∈ bs.preds) ∧
      ∀ p ∈ bl.preds, p < f.blocks.size := by
    intro b bl hbl
    have := h b (List.mem_range.mpr (lt_of_getElem?_some hbl))
    rw [hbl] at this
    simp only [Bool.and_eq_true, List.all_eq_true, decide_eq_true_eq] at this
    refine ⟨fun s hs => ?_, this.2⟩
    have := this.1 s hs
    split at this
    · rename_i bs e
      exact ⟨bs, e, by simpa using this⟩
    · cases this
  exact ⟨fun b bl hbl => (hb b bl hbl).1, fun b bl hbl => (hb b bl hbl).2⟩

theorem natsMapTo_of_edges (m : Matching) (bo : Nat → Option Nat) (n : Nat)
    (hbo : ∀ b, b < n → ∃ nb, m.bm b = some nb ∧ bo b = some nb) : ∀ (l l' : List Nat),
    (∀ x ∈ l, x < n) → edgesCorrespond bo l l' = true → natsMapTo m l l' = true
  | [], [], _, _ => rfl
  | [], _ :: _, _, h => by simp [edgesCorrespond] at h
  | _ :: _, [], _, h => by simp [edgesCorrespond] at h
  | a :: l, a' :: l', hlt, h => by
    simp only [edgesCorrespond, Bool.and_eq_true] at h
    simp only [natsMapTo, Bool.and_eq_true, beq_iff_eq]
    refine ⟨?_, natsMapTo_of_edges m bo n hbo l l' (fun x hx => hlt x (List.mem_cons_of_mem _ hx)) h.2⟩
    obtain ⟨nb, h1, h2⟩ := hbo a (hlt a List.mem_cons_self)
    have := h.1
    rw [h2] at this
    simp only [beq_iff_eq] at this
    rw [h1, this]

theorem natsMapTo_map (m : Matching) (φ : Nat → Nat) : ∀ (l : List Nat),
    (∀ b ∈ l, m.bm b = some (φ b)) → natsMapTo m l (l.map φ) = true
  | [], _ => rfl
  | a :: l, h => by
    simp only [List.map_cons, natsMapTo, Bool.and_eq_true, beq_iff_eq]
    exact ⟨h a List.mem_cons_self, natsMapTo_map m φ l (fun b hb => h b (List.mem_cons_of_mem _ hb))⟩

theorem natsMapTo_range (m : Matching) : natsMapTo m (List.range m.block.size) m.block.toList = true := by
  have e : m.block.toList = (List.range m.block.size).map (fun b => m.block.getD b 0) := by
    apply List.ext_getElem
    · simp
    · intro i h1 h2
      have hi : i < m.block.size := by simpa using h1
      simp [Array.getD_eq_getD_getElem?, Array.getElem?_eq_getElem hi]
  rw [e]
  apply natsMapTo_map
  intro b hb
  have hb' := List.mem_range.mp hb
  unfold Matching.bm
  rw [Array.getD_eq_getD_getElem?, Array.getElem?_eq_getElem hb']
  rfl

/-! ### predecessor lists only matter to blocks with a phi -/

def hasPhi (bl : Block) : Bool := bl.instrs.any (fun i => i.kind == .Phi)

/-- the function with the predecessor list of every phi-less block replaced by `ps` -/
def repredsBlock (ps : List Nat) (bl : Block) : Block :=
  { bl with preds := if hasPhi bl then bl.preds else ps }

def repreds (ps : List Nat) (f : Func) : Func :=
  { f with blocks := f.blocks.map (repredsBlock ps) }

theorem repreds_get (ps : List Nat) (f : Func) (k : Nat) :
    (repreds ps f).blocks[k]? = (f.blocks[k]?).map (repredsBlock ps) := by
  simp only [repreds, Array.getElem?_map]

theorem instrsMatch_any_phi (m : Matching) : ∀ (l l' : List Instr), instrsMatch m l l' = true →
    l.any (fun i => i.kind == .Phi) = l'.any (fun i => i.kind == .Phi)
  | [], [], _ => rfl
  | [], _ :: _, h => by simp [instrsMatch] at h
  | _ :: _, [], h => by simp [instrsMatch] at h
  | i :: l, i' :: l', h => by
    simp only [instrsMatch, Bool.and_eq_true] at h
    simp only [List.any_cons]
    rw [(instrMatches_spec h.1).2.1, instrsMatch_any_phi m l l' h.2]

/-! ### the isomorphism -/

theorem ZA.entry {f g : Func} {m : Matching} (Z : ZA f g m) (nb : Nat) (hnb : m.bm 0 = some nb) : nb = 0 := by
  obtain ⟨bl, bl', hb, hb'⟩ := Z.blk_some hnb
  have hlt := lt_of_getElem?_some hb
  obtain ⟨nb', hnb', hbo⟩ := Z.bo 0 hlt
  rw [hnb] at hnb'
  cases hnb'
  apply Classical.byContradiction
  intro hne
  obtain ⟨t, ht, _⟩ := Z.sf.last bl (mem_blocks_of_get hb)
  have := entry_mem_badPairs (layoutOf f) (layoutOf g) (pairsOf m) t.id nb
    (by rw [lay_size]; exact hlt) (by rw [lay_size, Z.bsz]; exact hlt)
    (by rw [(lay_blocks f 0 bl hb).2.1]; exact idsOf_getLast ht) hbo hne
  rw [Z.bad] at this
  cases this

/-- with the predecessor lists of the phi-less blocks normalised, the matching is an isomorphism in
    the sense of Lemmas/SemIsoLemmas.lean -/
theorem ZA.iso {f g : Func} {m : Matching} (Z : ZA f g m) (C : CFG f) (h0 : 0 < f.blocks.size) :
    Iso (repreds (List.range f.blocks.size) f) (repreds m.block.toList g) m := by
  refine ⟨Z.isz, ?_, Z.imInj, Z.bmInj, ?_, ?_⟩
  · intro d d' hd
    exact ⟨Z.msz ▸ lt_of_getElem?_some hd, Z.imLt d d' hd⟩
  · obtain ⟨nb, hnb, _⟩ := Z.bo 0 h0
    rw [hnb, Z.entry nb hnb]
  · intro k k' hk
    obtain ⟨bl, bl', hb, hb'⟩ := Z.blk_some hk
    have hbo : ∀ b, b < f.blocks.size → ∃ nb, m.bm b = some nb ∧ boOf f g m b = some nb := Z.bo
    have hsucc : natsMapTo m bl.succs bl'.succs = true :=
      natsMapTo_of_edges m (boOf f g m) f.blocks.size hbo _ _
        (fun s hs => by
          obtain ⟨bs, hbs, _⟩ := C.succ k bl hb s hs
          exact lt_of_getElem?_some hbs)
        (Z.succs_corr hb hk hb')
    have hins := Z.instrs_match hb hk hb'
    have hphi : hasPhi bl = hasPhi bl' := instrsMatch_any_phi m _ _ hins
    refine ⟨_, _, by rw [repreds_get, hb]; rfl, by rw [repreds_get, hb']; rfl, ?_⟩
    simp only [repredsBlock]
    rw [← hphi]
    cases hp : hasPhi bl with
    | true =>
      simp only [if_true]
      refine ⟨hsucc, ?_, hins⟩
      unfold hasPhi at hp
      rw [List.any_eq_true] at hp
      obtain ⟨i, hi, hik⟩ := hp
      obtain ⟨_, bl2, _, _, hb2, _, _, _, hpr⟩ := Z.instr_corr hb hk i hi
      rw [hb'] at hb2
      cases hb2
      exact natsMapTo_of_edges m (boOf f g m) f.blocks.size hbo _ _ (C.pred k bl hb)
        (hpr (by simpa using hik))
    | false =>
      simp only [Bool.false_eq_true, if_false]
      refine ⟨hsucc, ?_, hins⟩
      rw [← Z.mbsz]
      exact natsMapTo_range m

/-! ### normalising the predecessor lists of phi-less blocks does not change the behaviour -/

theorem execBody_goto_mem (args : List Value) (succs : List Nat) : ∀ (is : List Instr) (env : Env) (nb : Nat)
    (e : Env), execBody args succs is env = .goto nb e → nb ∈ succs
  | [], _, _, _, h => by simp [execBody] at h
  | i :: rest, env, nb, e, h => by
    have ih := execBody_goto_mem args succs rest
    by_cases h1 : i.kind = .Phi
    · rw [execBody_phi _ _ _ _ _ h1] at h
      exact ih _ _ _ h
    by_cases h2 : i.kind = .If
    · rw [execBody_if _ _ _ _ _ h2] at h
      split at h
      · rename_i c s0 s1 _
        simp only [BlockExit.goto.injEq] at h
        rw [← h.1]
        cases c <;> simp
      · cases h
    by_cases h3 : i.kind = .Jump
    · rw [execBody_jump _ _ _ _ _ h3] at h
      split at h
      · simp only [BlockExit.goto.injEq] at h
        rw [← h.1]
        simp
      · cases h
    by_cases h4 : i.kind = .Return
    · rw [execBody_return _ _ _ _ _ h4] at h
      split at h <;> cases h
    by_cases h5 : i.kind = .Panic
    · rw [execBody_panic _ _ _ _ _ h5] at h
      cases h
    · rw [execBody_other _ _ _ _ _ h1 h2 h3 h4 h5] at h
      split at h
      · exact ih _ _ _ h
      · cases h
      · cases h

theorem execPhis_noPhi (args : List Value) (k : Nat) (old : Env) : ∀ (is : List Instr) (new : Env),
    (∀ i ∈ is, i.kind ≠ .Phi) → execPhis args k old is new = some new
  | [], _, _ => rfl
  | i :: rest, new, h => by
    have hi : (i.kind != Kind.Phi) = true := by simpa using h i List.mem_cons_self
    simp only [execPhis, hi, if_true]
    exact execPhis_noPhi args k old rest new (fun j hj => h j (List.mem_cons_of_mem _ hj))

theorem indexOf?_go_some (p : Nat) : ∀ (l : List Nat) (k0 : Nat), p ∈ l → ∃ k, indexOf?.go p l k0 = some k
  | [], _, h => by cases h
  | y :: ys, k0, h => by
    simp only [indexOf?.go]
    by_cases hy : y = p
    · exact ⟨k0, by simp [hy]⟩
    · have hm : p ∈ ys := by
        rcases List.mem_cons.mp h with e | e
        · exact absurd e.symm hy
        · exact e
      obtain ⟨k, hk⟩ := indexOf?_go_some p ys (k0 + 1) hm
      exact ⟨k, by simp [hy, hk]⟩

theorem indexOf?_some (l : List Nat) (p : Nat) (h : p ∈ l) : ∃ k, indexOf? l p = some k :=
  indexOf?_go_some p l 0 h

theorem hasPhi_false {bl : Block} (h : hasPhi bl = false) : ∀ i ∈ bl.instrs, i.kind ≠ .Phi := by
  intro i hi hk
  unfold hasPhi at h
  rw [List.any_eq_false] at h
  exact h i hi (by simp [hk])

theorem optEnv_tail_eq (r r' : Option Env) (k k' : Env → Outcome) (h : r = r') (hk : ∀ e, k e = k' e) :
    (match (generalizing := false) r with | none => Outcome.stuck | some e => k e) =
      (match (generalizing := false) r' with | none => Outcome.stuck | some e => k' e) := by
  subst h
  cases r with
  | none => rfl
  | some e => exact hk e

theorem runFrom_repreds (f : Func) (ps : List Nat) (C : CFG f) (hps : ∀ p, p < f.blocks.size → p ∈ ps)
    (args : List Value) : ∀ (fuel : Nat) (prev : Option Nat) (b : Nat) (env : Env),
    (∀ p, prev = some p → ∃ blp, f.blocks[p]? = some blp ∧ b ∈ blp.succs) →
    runFrom (repreds ps f) args fuel prev b env = runFrom f args fuel prev b env
  | 0, _, _, _, _ => rfl
  | fuel + 1, prev, b, env, hprev => by
    simp only [runFrom, repreds_get]
    cases hb : f.blocks[b]? with
    | none => rfl
    | some bl =>
      simp only [Option.map_some]
      have hs : (repredsBlock ps bl).succs = bl.succs := rfl
      have hi : (repredsBlock ps bl).instrs = bl.instrs := rfl
      rw [hs, hi]
      have hphi :
          (match (generalizing := false) prev with
           | none => some env
           | some p =>
             match indexOf? (repredsBlock ps bl).preds p with
             | some k => execPhis args k env bl.instrs env
             | none => none) =
          (match (generalizing := false) prev with
           | none => some env
           | some p =>
             match indexOf? bl.preds p with
             | some k => execPhis args k env bl.instrs env
             | none => none) := by
        cases prev with
        | none => rfl
        | some p =>
          simp only
          cases hp : hasPhi bl with
          | true => simp only [repredsBlock, hp, if_true]
          | false =>
            simp only [repredsBlock, hp, Bool.false_eq_true, if_false]
            obtain ⟨blp, hblp, hmem⟩ := hprev p rfl
            obtain ⟨bs, hbs, hpm⟩ := C.succ p blp hblp b hmem
            rw [hb] at hbs
            cases hbs
            obtain ⟨k1, hk1⟩ := indexOf?_some bl.preds p hpm
            obtain ⟨k2, hk2⟩ := indexOf?_some ps p (hps p (lt_of_getElem?_some hblp))
            rw [hk1, hk2]
            simp only
            rw [execPhis_noPhi _ _ _ _ _ (hasPhi_false hp), execPhis_noPhi _ _ _ _ _ (hasPhi_false hp)]
      refine optEnv_tail_eq _ _ _ _ hphi (fun env1 => ?_)
      cases hx : execBody args bl.succs bl.instrs env1 with
      | done o => rfl
      | goto nb env2 =>
        simp only
        exact runFrom_repreds f ps C hps args fuel (some b) nb env2
          (fun p hp => by
            cases hp
            exact ⟨bl, hb, execBody_goto_mem args _ _ _ _ _ hx⟩)

theorem run_repreds (f : Func) (ps : List Nat) (C : CFG f) (hps : ∀ p, p < f.blocks.size → p ∈ ps)
    (args : List Value) (fuel : Nat) : run (repreds ps f) args fuel = run f args fuel := by
  unfold run
  exact runFrom_repreds f ps C hps args fuel none 0 _ (fun p hp => by cases hp)

/-! ### the verdict -/

theorem run_of_ZA {f g : Func} {m : Matching} (Z : ZA f g m) (Cf : CFG f) (Cg : CFG g)
    (args : List Value) (fuel : Nat) : run f args fuel = run g args fuel := by
  by_cases h0 : 0 < f.blocks.size
  · have I := Z.iso Cf h0
    have e1 := run_repreds f (List.range f.blocks.size) Cf (fun p hp => List.mem_range.mpr hp) args fuel
    have e3 := run_repreds g m.block.toList Cg
      (fun p hp => by
        obtain ⟨b, hb⟩ := Z.bmSurj p (Z.bsz ▸ hp)
        unfold Matching.bm at hb
        exact List.mem_iff_getElem?.mpr ⟨b, by rw [Array.getElem?_toList]; exact hb⟩) args fuel
    have e2 : run (repreds (List.range f.blocks.size) f) args fuel = run (repreds m.block.toList g) args fuel := by
      unfold run Func.nInstrs
      rw [I.isize]
      exact (runFrom_iso I args fuel none none 0 0 _ _ trivial I.b0 (IsoRel.replicate m _)).symm
    rw [← e1, e2, e3]
  · have hf : f.blocks[0]? = none := Array.getElem?_eq_none (by omega)
    have hg : g.blocks[0]? = none := Array.getElem?_eq_none (by rw [Z.bsz]; omega)
    unfold run
    cases fuel with
    | zero => rfl
    | succ fuel => simp only [runFrom, hf, hg]

/-- accepted by the zipper (on functions with consistent edge lists) ⇒ same behaviour -/
theorem run_of_zipperAccepts (f g : Func) (m : Matching) (h : zipperAccepts f g m = true)
    (args : List Value) (fuel : Nat) : run f args fuel = run g args fuel := by
  unfold zipperAccepts at h
  simp only [Bool.and_eq_true] at h
  exact run_of_ZA (ZA.of_zipperCore f g m h.1.1) (CFG.of_cfgCheck f h.1.2) (CFG.of_cfgCheck g h.2) args fuel

end Sfw.Canon.Sem
