/-
  The three order lemmas of Lemmas/Lex.lean, restated with the CORE `≤` on keys (the instance the
  model, Lemmas/KV.lean and Lemmas/Effect.lean use).  With the current imports of Lex.lean these are
  literally the same statements; should Lex.lean ever import `Mathlib.Data.List.Lex` (which makes
  `≤` on `List ℕ` elaborate to Mathlib's `List.LE'`), the second alternative of each proof bridges
  the two orders, so that Props/C06.lean does not depend on that choice.
-/
import SfwModel.Lemmas.Lex
import SfwModel.Lemmas.KV
namespace Sfw.Store

attribute [local instance 10000] List.instLE
set_option linter.unreachableTactic false
set_option linter.unusedTactic false

theorem le_of_prefix_c {p k : Key} (h : p <+: k) : p ≤ k := by
  first
  | exact le_of_prefix h
  | exact kle_of_not_lt (not_lt_of_ge (le_of_prefix h))

theorem prefix_iff_range_snoc_c (q : Key) {b : Nat} (k : Key) :
    (q ++ [b]) <+: k ↔ (q ++ [b] ≤ k ∧ k < q ++ [b + 1]) := by
  first
  | exact prefix_iff_range_snoc q k
  | exact (prefix_iff_range_snoc q k).trans
      (and_congr ⟨fun h => kle_of_not_lt (not_lt_of_ge h), fun h => le_of_not_gt (knot_lt_of_le h)⟩ Iff.rfl)

theorem fmtE_mono_c {a b : Rat} (ha : 0 ≤ a) (hab : a ≤ b) (hb : b ≤ 999) :
    bytes (fmtE a) ≤ bytes (fmtE b) := by
  first
  | exact fmtE_mono ha hab hb
  | exact kle_of_not_lt (not_lt_of_ge (fmtE_mono ha hab hb))

end Sfw.Store
