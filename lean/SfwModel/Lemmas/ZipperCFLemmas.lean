/-
  Helper lemmas for Props/C04Enforce: one step of the `badInBlock` walk, the partner of a pair under
  pairwise different first components, and what "not in `badPairs`" says about the walk of a block.
-/
import SfwModel.Model.ZipperCF
namespace Sfw.ZipperCF

/-- with pairwise different first components, the partner of `x` is the second component of the
    only pair that starts with `x` -/
theorem partner_of_mem (fwd : Pairs) (hnd : (fwd.map Prod.fst).Nodup) (x x' : Nat)
    (h : (x, x') ∈ fwd) : partner fwd x = some x' := by
  induction fwd with
  | nil => cases h
  | cons q qs ih =>
    rw [List.map_cons, List.nodup_cons] at hnd
    rcases List.mem_cons.mp h with h | h
    · subst h
      simp [partner, List.find?]
    · have hne : q.1 ≠ x := by
        intro he
        apply hnd.1
        rw [he]
        exact List.mem_map.mpr ⟨(x, x'), h, rfl⟩
      have ih' := ih hnd.2 h
      unfold partner at ih' ⊢
      rw [List.find?_cons]
      have : (q.1 == x) = false := by simpa using hne
      rw [this]
      exact ih'

/-- one step of the walk: the head is undone, or has no partner, or is kept — and then its partner
    sits in `nb`, not below `last`, and the edge checks that apply to it passed -/
theorem badInBlock_cons_cases (old new : Layout) (fwd : Pairs) (bo : Nat → Option Nat) (b nb : Nat)
    (instr : Nat) (rest : List Nat) (last : Option Nat) :
    (badInBlock old new fwd bo b nb (instr :: rest) last
        = instr :: badInBlock old new fwd bo b nb rest last) ∨
    (partner fwd instr = none ∧
      badInBlock old new fwd bo b nb (instr :: rest) last
        = badInBlock old new fwd bo b nb rest last) ∨
    (∃ m mp, partner fwd instr = some m ∧ new.locate m = some (nb, mp) ∧
      (∀ l, last = some l → l ≤ mp) ∧
      (rest = [] → edgesCorrespond bo (old.succs.getD b []) (new.succs.getD nb []) = true) ∧
      (instr ∈ old.phis → edgesCorrespond bo (old.preds.getD b []) (new.preds.getD nb []) = true) ∧
      badInBlock old new fwd bo b nb (instr :: rest) last
        = badInBlock old new fwd bo b nb rest (some mp)) := by
  rw [badInBlock]
  cases hp : partner fwd instr with
  | none => exact Or.inr (Or.inl ⟨rfl, rfl⟩)
  | some m =>
    simp only
    cases hl : new.locate m with
    | none => exact Or.inl rfl
    | some q =>
      obtain ⟨mb, mp⟩ := q
      simp only
      by_cases h1 : (mb != nb) = true
      · rw [if_pos h1]; exact Or.inl rfl
      rw [if_neg h1]
      have hmb : mb = nb := by simpa using h1
      subst hmb
      have tail : (∀ l, last = some l → l ≤ mp) →
          ((if (rest.isEmpty &&
                !edgesCorrespond bo (old.succs.getD b []) (new.succs.getD mb [])) = true then
              instr :: badInBlock old new fwd bo b mb rest last
            else if (old.phis.contains instr &&
                !edgesCorrespond bo (old.preds.getD b []) (new.preds.getD mb [])) = true then
              instr :: badInBlock old new fwd bo b mb rest last
            else badInBlock old new fwd bo b mb rest (some mp))
              = instr :: badInBlock old new fwd bo b mb rest last) ∨
          (some m = none ∧
            (if (rest.isEmpty &&
                !edgesCorrespond bo (old.succs.getD b []) (new.succs.getD mb [])) = true then
              instr :: badInBlock old new fwd bo b mb rest last
            else if (old.phis.contains instr &&
                !edgesCorrespond bo (old.preds.getD b []) (new.preds.getD mb [])) = true then
              instr :: badInBlock old new fwd bo b mb rest last
            else badInBlock old new fwd bo b mb rest (some mp))
              = badInBlock old new fwd bo b mb rest last) ∨
          (∃ m' mp', some m = some m' ∧ new.locate m' = some (mb, mp') ∧
            (∀ l, last = some l → l ≤ mp') ∧
            (rest = [] → edgesCorrespond bo (old.succs.getD b []) (new.succs.getD mb []) = true) ∧
            (instr ∈ old.phis →
              edgesCorrespond bo (old.preds.getD b []) (new.preds.getD mb []) = true) ∧
            (if (rest.isEmpty &&
                !edgesCorrespond bo (old.succs.getD b []) (new.succs.getD mb [])) = true then
              instr :: badInBlock old new fwd bo b mb rest last
            else if (old.phis.contains instr &&
                !edgesCorrespond bo (old.preds.getD b []) (new.preds.getD mb [])) = true then
              instr :: badInBlock old new fwd bo b mb rest last
            else badInBlock old new fwd bo b mb rest (some mp))
              = badInBlock old new fwd bo b mb rest (some mp')) := by
        intro hlast
        by_cases h3 : (rest.isEmpty &&
            !edgesCorrespond bo (old.succs.getD b []) (new.succs.getD mb [])) = true
        · rw [if_pos h3]; exact Or.inl rfl
        rw [if_neg h3]
        by_cases h4 : (old.phis.contains instr &&
            !edgesCorrespond bo (old.preds.getD b []) (new.preds.getD mb [])) = true
        · rw [if_pos h4]; exact Or.inl rfl
        rw [if_neg h4]
        refine Or.inr (Or.inr ⟨m, mp, rfl, hl, hlast, ?_, ?_, rfl⟩)
        · intro hr
          subst hr
          simpa using h3
        · intro hphi
          have hc : old.phis.contains instr = true := by simpa using hphi
          rw [hc] at h4
          simpa using h4
      cases last with
      | none =>
        simp only [Bool.false_eq_true, if_false]
        exact tail (fun l hl' => by cases hl')
      | some l =>
        simp only
        by_cases h2 : decide (mp < l) = true
        · rw [if_pos h2]; exact Or.inl rfl
        rw [if_neg h2]
        refine tail (fun l' hl' => ?_)
        cases hl'
        have : ¬ mp < l := by simpa using h2
        omega

/-- a kept instruction of the walked list: its partner sits in `nb`, and when it is a phi the
    predecessor check passed -/
theorem badInBlock_kept (old new : Layout) (fwd : Pairs) (bo : Nat → Option Nat) (b nb : Nat)
    (i m : Nat) (hpi : partner fwd i = some m) :
    ∀ (instrs : List Nat) (last : Option Nat), i ∈ instrs →
      i ∉ badInBlock old new fwd bo b nb instrs last →
      ∃ mp, new.locate m = some (nb, mp) ∧
        (i ∈ old.phis → edgesCorrespond bo (old.preds.getD b []) (new.preds.getD nb []) = true) := by
  intro instrs
  induction instrs with
  | nil => intro _ h; cases h
  | cons a rest ih =>
    intro last hmem hnot
    rcases badInBlock_cons_cases old new fwd bo b nb a rest last with h | ⟨hn, h⟩ |
      ⟨m', mp, hpa, hloc, _, _, hphi, h⟩
    · rw [h] at hnot
      have hne : i ≠ a := fun e => hnot (e ▸ List.mem_cons_self)
      have hr : i ∈ rest := by
        rcases List.mem_cons.mp hmem with e | e
        · exact absurd e hne
        · exact e
      exact ih last hr (fun hh => hnot (List.mem_cons_of_mem _ hh))
    · rw [h] at hnot
      rcases List.mem_cons.mp hmem with e | e
      · subst e; rw [hpi] at hn; cases hn
      · exact ih last e hnot
    · rw [h] at hnot
      rcases List.mem_cons.mp hmem with e | e
      · subst e
        rw [hpi] at hpa
        cases hpa
        exact ⟨mp, hloc, hphi⟩
      · exact ih (some mp) e hnot

/-- once `last` is at least `px`, every later kept instruction has its partner at or after `px` -/
theorem badInBlock_after (old new : Layout) (fwd : Pairs) (bo : Nat → Option Nat) (b nb : Nat)
    (y y' py px : Nat) (hpy : partner fwd y = some y') (hly : new.locate y' = some (nb, py)) :
    ∀ (instrs : List Nat) (l : Nat), px ≤ l → y ∈ instrs →
      y ∉ badInBlock old new fwd bo b nb instrs (some l) → px ≤ py := by
  intro instrs
  induction instrs with
  | nil => intro _ _ h; cases h
  | cons a rest ih =>
    intro l hle hmem hnot
    rcases badInBlock_cons_cases old new fwd bo b nb a rest (some l) with h | ⟨hn, h⟩ |
      ⟨m', mp, hpa, hloc, hlast, _, _, h⟩
    · rw [h] at hnot
      have hne : y ≠ a := fun e => hnot (e ▸ List.mem_cons_self)
      have hr : y ∈ rest := by
        rcases List.mem_cons.mp hmem with e | e
        · exact absurd e hne
        · exact e
      exact ih l hle hr (fun hh => hnot (List.mem_cons_of_mem _ hh))
    · rw [h] at hnot
      rcases List.mem_cons.mp hmem with e | e
      · subst e; rw [hpy] at hn; cases hn
      · exact ih l hle e hnot
    · rw [h] at hnot
      have hlm : l ≤ mp := hlast l rfl
      rcases List.mem_cons.mp hmem with e | e
      · subst e
        rw [hpy] at hpa
        cases hpa
        rw [hly] at hloc
        cases hloc
        omega
      · exact ih mp (by omega) e hnot

/-- two kept instructions of one walk keep their order -/
theorem badInBlock_order (old new : Layout) (fwd : Pairs) (bo : Nat → Option Nat) (b nb : Nat)
    (x x' px y y' py : Nat)
    (hpx : partner fwd x = some x') (hlx : new.locate x' = some (nb, px))
    (hpy : partner fwd y = some y') (hly : new.locate y' = some (nb, py))
    (rest : List Nat) (hy : y ∈ rest) :
    ∀ (pre : List Nat) (last : Option Nat),
      x ∉ badInBlock old new fwd bo b nb (pre ++ x :: rest) last →
      y ∉ badInBlock old new fwd bo b nb (pre ++ x :: rest) last → px ≤ py := by
  intro pre
  induction pre with
  | nil =>
    intro last hnx hny
    rw [List.nil_append] at hnx hny
    rcases badInBlock_cons_cases old new fwd bo b nb x rest last with h | ⟨hn, h⟩ |
      ⟨m', mp, hpa, hloc, _, _, _, h⟩
    · rw [h] at hnx
      exact absurd List.mem_cons_self hnx
    · rw [hpx] at hn; cases hn
    · rw [hpx] at hpa
      cases hpa
      rw [hlx] at hloc
      cases hloc
      rw [h] at hny
      exact badInBlock_after old new fwd bo b nb y y' py px hpy hly rest px (Nat.le_refl _) hy hny
  | cons a pre ih =>
    intro last hnx hny
    rw [List.cons_append] at hnx hny
    rcases badInBlock_cons_cases old new fwd bo b nb a (pre ++ x :: rest) last with h | ⟨_, h⟩ |
      ⟨m', mp, _, _, _, _, _, h⟩
    · rw [h] at hnx hny
      exact ih last (fun hh => hnx (List.mem_cons_of_mem _ hh))
        (fun hh => hny (List.mem_cons_of_mem _ hh))
    · rw [h] at hnx hny
      exact ih last hnx hny
    · rw [h] at hnx hny
      exact ih (some mp) hnx hny

/-- a kept last instruction: the successor check passed -/
theorem badInBlock_last (old new : Layout) (fwd : Pairs) (bo : Nat → Option Nat) (b nb : Nat)
    (t t' : Nat) (hpt : partner fwd t = some t') :
    ∀ (init : List Nat) (last : Option Nat),
      t ∉ badInBlock old new fwd bo b nb (init ++ [t]) last →
      edgesCorrespond bo (old.succs.getD b []) (new.succs.getD nb []) = true := by
  intro init
  induction init with
  | nil =>
    intro last hnt
    rw [List.nil_append] at hnt
    rcases badInBlock_cons_cases old new fwd bo b nb t [] last with h | ⟨hn, h⟩ |
      ⟨m', mp, _, _, _, hs, _, h⟩
    · rw [h] at hnt
      exact absurd List.mem_cons_self hnt
    · rw [hpt] at hn; cases hn
    · exact hs rfl
  | cons a init ih =>
    intro last hnt
    rw [List.cons_append] at hnt
    rcases badInBlock_cons_cases old new fwd bo b nb a (init ++ [t]) last with h | ⟨_, h⟩ |
      ⟨m', mp, _, _, _, _, _, h⟩
    · rw [h] at hnt
      exact ih last (fun hh => hnt (List.mem_cons_of_mem _ hh))
    · rw [h] at hnt
      exact ih last hnt
    · rw [h] at hnt
      exact ih (some mp) hnt

/-- a surviving pair is a pair of `fwd` whose old id is not undone -/
theorem mem_enforce (old new : Layout) (fwd : Pairs) (p : Nat × Nat) (h : p ∈ enforce old new fwd) :
    p ∈ fwd ∧ p.1 ∉ badPairs old new fwd := by
  unfold enforce at h
  rw [List.mem_filter] at h
  refine ⟨h.1, ?_⟩
  simpa using h.2

/-- an id that is not undone is not undone by the walk of any (non-entry-mismatch) block -/
theorem not_mem_badInBlock_of_not_mem_badPairs (old new : Layout) (fwd : Pairs) (x b nb : Nat)
    (hx : x ∉ badPairs old new fwd) (hbsz : b < old.blocks.size)
    (hbo : blockOf old new fwd b = some nb)
    (hentry : ¬ (b = 0 ∧ new.blocks.size > 0 ∧ nb ≠ 0)) :
    x ∉ badInBlock old new fwd (blockOf old new fwd) b nb (old.blocks.getD b []) none := by
  intro hmem
  apply hx
  unfold badPairs
  simp only
  rw [List.mem_flatMap]
  refine ⟨b, List.mem_range.mpr hbsz, ?_⟩
  rw [hbo]
  simp only
  have hc : (b == 0 && decide (new.blocks.size > 0) && nb != 0) = false := by
    rw [Bool.eq_false_iff]
    intro hh
    apply hentry
    have hh' : (b = 0 ∧ 0 < new.blocks.size) ∧ ¬nb = 0 := by simpa [Bool.and_eq_true] using hh
    exact ⟨hh'.1.1, hh'.1.2, hh'.2⟩
  rw [hc]
  exact hmem

/-- the entry block matched into another block: its terminator is undone -/
theorem entry_mem_badPairs (old new : Layout) (fwd : Pairs) (t nb : Nat)
    (h0 : 0 < old.blocks.size) (hn : new.blocks.size > 0)
    (ht : (old.blocks.getD 0 []).getLast? = some t)
    (hbo : blockOf old new fwd 0 = some nb) (hne : nb ≠ 0) :
    t ∈ badPairs old new fwd := by
  unfold badPairs
  simp only
  rw [List.mem_flatMap]
  refine ⟨0, List.mem_range.mpr h0, ?_⟩
  rw [hbo]
  simp only
  have hc : ((0 : Nat) == 0 && decide (new.blocks.size > 0) && nb != 0) = true := by
    simp [hn, hne]
  rw [hc, ht]
  simp

end Sfw.ZipperCF
