/-
  Helper lemmas for Props/C04Sem.lean: the simulation between two functions related by a matching
  that `isoCheck` accepts.  PROOF ONLY.
-/
import SfwModel.Model.Canon.SemIso
import SfwModel.Lemmas.SemView
namespace Sfw.Canon.Sem
open Sfw.Canon

/-! ### arrays without repeated entries -/

theorem lt_of_getElem?_some {α : Type} {a : Array α} {i : Nat} {x : α} (h : a[i]? = some x) : i < a.size := by
  rcases Nat.lt_or_ge i a.size with h' | h'
  · exact h'
  · rw [Array.getElem?_eq_none h'] at h; cases h

theorem injectiveArr_spec (a : Array Nat) (h : injectiveArr a = true) (i j x : Nat)
    (hi : a[i]? = some x) (hj : a[j]? = some x) : i = j := by
  have hil := lt_of_getElem?_some hi
  have hjl := lt_of_getElem?_some hj
  unfold injectiveArr at h
  simp only [List.all_eq_true, List.mem_range, Bool.or_eq_true, beq_iff_eq, bne_iff_ne, ne_eq] at h
  rcases h i hil j hjl with h | h
  · exact h
  · exfalso
    apply h
    simp [Array.getD_eq_getD_getElem?, hi, hj]

/-! ### what `isoCheck` gives -/

structure Iso (f g : Func) (m : Matching) : Prop where
  isize : g.instrs.size = f.instrs.size
  imDom : ∀ d d', m.im d = some d' → d < f.instrs.size ∧ d' < f.instrs.size
  imInj : ∀ a b c, m.im a = some c → m.im b = some c → a = b
  bmInj : ∀ a b c, m.bm a = some c → m.bm b = some c → a = b
  b0 : m.bm 0 = some 0
  blk : ∀ k k', m.bm k = some k' → ∃ bl bl', f.blocks[k]? = some bl ∧ g.blocks[k']? = some bl' ∧
    natsMapTo m bl.succs bl'.succs = true ∧ natsMapTo m bl.preds bl'.preds = true ∧
    instrsMatch m bl.instrs bl'.instrs = true

theorem Iso.of_isoCheck (f g : Func) (m : Matching) (h : isoCheck f g m = true) : Iso f g m := by
  unfold isoCheck at h
  simp only [Bool.and_eq_true, beq_iff_eq, List.all_eq_true, List.mem_range] at h
  obtain ⟨⟨⟨⟨⟨⟨⟨⟨⟨⟨⟨_, _⟩, hbs⟩, his⟩, hms⟩, hmb⟩, hinj⟩, hbinj⟩, hir⟩, _⟩, hb0⟩, hblk⟩ := h
  rw [Array.all_eq_true] at hir
  refine ⟨his.symm, ?_, ?_, ?_, hb0, ?_⟩
  · intro d d' hd
    unfold Matching.im at hd
    have hl := lt_of_getElem?_some hd
    refine ⟨hms ▸ hl, ?_⟩
    have := hir d hl
    rw [Array.getElem?_eq_getElem hl] at hd
    cases hd
    rw [his]
    simpa using this
  · intro a b c ha hb
    exact injectiveArr_spec _ hinj a b c ha hb
  · intro a b c ha hb
    exact injectiveArr_spec _ hbinj a b c ha hb
  · intro k k' hk
    have hl : k < f.blocks.size := by
      unfold Matching.bm at hk
      exact hmb ▸ lt_of_getElem?_some hk
    have := hblk k hl
    rw [hk] at this
    simp only [Option.bind_some] at this
    split at this
    · rename_i bl bl' e1 e2
      simp only [Bool.and_eq_true] at this
      exact ⟨bl, bl', e1, e2, this.1.1, this.1.2, this.2⟩
    · cases this

/-! ### related environments -/

/-- both environments have `n` slots, and corresponding slots hold the same value -/
def IsoRel (m : Matching) (n : Nat) (env env' : Env) : Prop :=
  env.size = n ∧ env'.size = n ∧ ∀ d d', m.im d = some d' → env'.getD d' none = env.getD d none

theorem IsoRel.replicate (m : Matching) (n : Nat) :
    IsoRel m n (Array.replicate n none) (Array.replicate n none) := by
  refine ⟨by simp, by simp, fun d d' _ => ?_⟩
  have : ∀ k, (Array.replicate n (none : Option Value)).getD k none = none := by
    intro k
    simp only [Array.getD_eq_getD_getElem?, Array.getElem?_replicate]
    split <;> rfl
  rw [this, this]

theorem IsoRel.envSet {f g : Func} {m : Matching} (I : Iso f g m) {env env' : Env}
    (h : IsoRel m f.instrs.size env env') (a a' : Nat) (ha : m.im a = some a') (v : Option Value) :
    IsoRel m f.instrs.size (envSet env a v) (envSet env' a' v) := by
  cases v with
  | none => exact h
  | some w =>
    obtain ⟨h1, h2, h3⟩ := h
    simp only [Sem.envSet]
    refine ⟨by simp [h1], by simp [h2], fun d d' hd => ?_⟩
    rw [getD_setIfInBounds, getD_setIfInBounds, h1, h2]
    obtain ⟨la, la'⟩ := I.imDom a a' ha
    by_cases hda : a = d
    · subst hda
      rw [ha] at hd
      cases hd
      rw [if_pos ⟨rfl, la'⟩, if_pos ⟨rfl, la⟩]
    · have hda' : a' ≠ d' := fun e => hda (I.imInj a d d' (e ▸ ha) hd)
      rw [if_neg (fun c => hda' c.1), if_neg (fun c => hda c.1)]
      exact h3 d d' hd

/-! ### operands -/

theorem evalOperand_iso {m : Matching} {n : Nat} {env env' : Env} (hR : IsoRel m n env env')
    (args : List Value) (o o' : Operand) (h : operandMatches m o o' = true) :
    evalOperand args env' o' = evalOperand args env o := by
  unfold operandMatches at h
  simp only [Bool.and_eq_true, beq_iff_eq] at h
  obtain ⟨htf, h⟩ := h
  unfold evalOperand
  split at h
  · rename_i d d' e e'
    simp only [beq_iff_eq] at h
    rw [e, e']
    exact hR.2.2 d d' h
  · rename_i k k' e e'
    simp only [beq_iff_eq] at h
    rw [e, e', h]
  · rename_i c c' e e'
    simp only [Bool.and_eq_true, beq_iff_eq] at h
    rw [e, e']
    exact h.1.symm
  · rename_i c c' e e'
    rw [e, e']
  · cases h

theorem operandMatches_tf {m : Matching} {o o' : Operand} (h : operandMatches m o o' = true) : o.tf = o'.tf := by
  unfold operandMatches at h
  simp only [Bool.and_eq_true, beq_iff_eq] at h
  exact h.1

/-- the name of the builtin an operand slot holds -/
def builtinOf : Option Val → Option String
  | some (.builtin n) => some n
  | _ => none

theorem operandMatches_builtin {m : Matching} {o o' : Operand} (h : operandMatches m o o' = true) :
    builtinOf o.val = builtinOf o'.val := by
  unfold operandMatches at h
  simp only [Bool.and_eq_true, beq_iff_eq] at h
  obtain ⟨_, h⟩ := h
  split at h
  · rename_i e e'; rw [e, e']; rfl
  · rename_i e e'; rw [e, e']; rfl
  · rename_i e e'; rw [e, e']; rfl
  · rename_i e e'
    simp only [beq_iff_eq] at h
    rw [e, e', h]
  · cases h

/-- corresponding operand slots -/
def OptOpRel (m : Matching) : Option Operand → Option Operand → Prop
  | some o, some o' => operandMatches m o o' = true
  | none, none => True
  | _, _ => False

theorem operandsMatch_get (m : Matching) : ∀ (os os' : List Operand), operandsMatch m os os' = true →
    ∀ k : Nat, OptOpRel m os[k]? os'[k]?
  | [], [], _, k => by simp [OptOpRel]
  | [], _ :: _, h, _ => by simp [operandsMatch] at h
  | _ :: _, [], h, _ => by simp [operandsMatch] at h
  | o :: os, o' :: os', h, k => by
    simp only [operandsMatch, Bool.and_eq_true] at h
    cases k with
    | zero => simpa [OptOpRel] using h.1
    | succ k =>
      simp only [List.getElem?_cons_succ]
      exact operandsMatch_get m os os' h.2 k

theorem operandsMatch_length (m : Matching) : ∀ (os os' : List Operand), operandsMatch m os os' = true →
    os.length = os'.length
  | [], [], _ => rfl
  | [], _ :: _, h => by simp [operandsMatch] at h
  | _ :: _, [], h => by simp [operandsMatch] at h
  | o :: os, o' :: os', h => by
    simp only [operandsMatch, Bool.and_eq_true] at h
    simp [operandsMatch_length m os os' h.2]

theorem optOpRel_eval {m : Matching} {n : Nat} {env env' : Env} (hR : IsoRel m n env env') (args : List Value)
    (x x' : Option Operand) (h : OptOpRel m x x') :
    x'.bind (evalOperand args env') = x.bind (evalOperand args env) := by
  cases x <;> cases x' <;> simp only [OptOpRel] at h
  · rfl
  · exact evalOperand_iso hR args _ _ h

theorem execReturn_iso {m : Matching} {n : Nat} {env env' : Env} (hR : IsoRel m n env env') (args : List Value) :
    ∀ (os os' : List Operand), operandsMatch m os os' = true →
      execReturn args env' os' = execReturn args env os
  | [], [], _ => rfl
  | [], _ :: _, h => by simp [operandsMatch] at h
  | _ :: _, [], h => by simp [operandsMatch] at h
  | o :: os, o' :: os', h => by
    simp only [operandsMatch, Bool.and_eq_true] at h
    simp only [execReturn]
    rw [evalOperand_iso hR args o o' h.1, execReturn_iso hR args os os' h.2]

/-! ### one instruction -/

/-- `evalInstr` reads an instruction only through these -/
theorem evalInstr_congr2 (args : List Value) (env env' : Env) (i i' : Instr)
    (hk : i.kind = i'.kind) (hop : i.op = i'.op) (htf : i.tf = i'.tf) (hb1 : i.b1 = i'.b1)
    (hlen : i.ops.length = i'.ops.length) (hotf : ∀ k, i.opTf k = i'.opTf k)
    (hopv : ∀ k : Nat, (i'.ops[k]?).bind (evalOperand args env') = (i.ops[k]?).bind (evalOperand args env))
    (hbn : builtinOf (i.opVal 0) = builtinOf (i'.opVal 0)) :
    evalInstr args env' i' = evalInstr args env i := by
  unfold evalInstr
  simp only [← hk, ← hop, ← htf, ← hb1, ← hlen, ← hotf, hopv]
  cases hkind : i.kind <;> try rfl
  -- Call
  simp only
  cases h0 : i.opVal 0 with
  | none =>
    cases h0' : i'.opVal 0 with
    | none => rfl
    | some v' =>
      cases v' <;> first | rfl | (rw [h0, h0'] at hbn; simp [builtinOf] at hbn)
  | some v =>
    cases h0' : i'.opVal 0 with
    | none =>
      cases v <;> first | rfl | (rw [h0, h0'] at hbn; simp [builtinOf] at hbn)
    | some v' =>
      rw [h0, h0'] at hbn
      cases v <;> cases v' <;> first | rfl | (simp [builtinOf] at hbn) | skip
      rw [hbn]

theorem instrMatches_spec {m : Matching} {i i' : Instr} (h : instrMatches m i i' = true) :
    m.im i.id = some i'.id ∧ i.kind = i'.kind ∧ i.op = i'.op ∧ i.tf = i'.tf ∧ i.b1 = i'.b1 ∧
    (operandsMatch m i.ops i'.ops = true ∨
      (swapAllowed i = true ∧ ∃ x y x' y', i.ops = [x, y] ∧ i'.ops = [x', y'] ∧
        operandMatches m x y' = true ∧ operandMatches m y x' = true)) := by
  unfold instrMatches at h
  simp only [Bool.and_eq_true, Bool.or_eq_true, beq_iff_eq] at h
  obtain ⟨⟨⟨⟨⟨⟨h1, h2⟩, h3⟩, h4⟩, h5⟩, _⟩, h7⟩ := h
  refine ⟨h1, h2, h3, h4, h5, ?_⟩
  rcases h7 with h7 | ⟨hs, h7⟩
  · exact Or.inl h7
  · right
    refine ⟨hs, ?_⟩
    split at h7
    · rename_i x y x' y' e e'
      simp only [Bool.and_eq_true] at h7
      exact ⟨x, y, x', y', e, e', h7.1, h7.2⟩
    · cases h7

theorem swapAllowed_sound (i : Instr) (h : swapAllowed i = true) (t0 t1 : TFlags) (a b : Value) :
    i.kind = .BinOp ∧ evalBinOp i.op i.tf t0 t1 a b = evalBinOp i.op i.tf t1 t0 b a := by
  unfold swapAllowed at h
  simp only [Bool.and_eq_true, beq_iff_eq] at h
  obtain ⟨hk, h⟩ := h
  refine ⟨hk, ?_⟩
  split at h
  · rename_i hop
    simp only [Bool.or_eq_true, beq_iff_eq] at hop
    simp only [Bool.and_eq_true, Bool.not_eq_true'] at h
    have hrs : i.tf.isString = false := h.1
    rcases hop with (((hop | hop) | hop) | hop) | hop
    · rw [hop]
      apply evalBinOp_comm_add
      intro x y _ _
      simp [Value.fits, hrs]
    · exact evalBinOp_comm_arith _ (Or.inl hop) _ _ _ _ _
    · exact evalBinOp_comm_arith _ (Or.inr (Or.inl hop)) _ _ _ _ _
    · exact evalBinOp_comm_arith _ (Or.inr (Or.inr (Or.inl hop))) _ _ _ _ _
    · exact evalBinOp_comm_arith _ (Or.inr (Or.inr (Or.inr hop))) _ _ _ _ _
  · simp only [Bool.or_eq_true, beq_iff_eq] at h
    exact evalBinOp_comm_cmp _ h _ _ _ _ _

theorem binOpRes_swapAllowed (i : Instr) (h : swapAllowed i = true) (t0 t1 : TFlags) (x y : Option Value) :
    binOpRes i.op i.tf t1 t0 y x = binOpRes i.op i.tf t0 t1 x y := by
  cases x with
  | none => cases y <;> rfl
  | some a =>
    cases y with
    | none => rfl
    | some b =>
      simp only [binOpRes]
      rw [(swapAllowed_sound i h t0 t1 a b).2]

theorem evalInstr_iso {m : Matching} {n : Nat} {env env' : Env} (hR : IsoRel m n env env') (args : List Value)
    (i i' : Instr) (h : instrMatches m i i' = true) :
    evalInstr args env' i' = evalInstr args env i := by
  obtain ⟨_, hk, hop, htf, hb1, hops | ⟨hs, x, y, x', y', e, e', hxy', hyx'⟩⟩ := instrMatches_spec h
  · have hget := operandsMatch_get m i.ops i'.ops hops
    refine evalInstr_congr2 args env env' i i' hk hop htf hb1 (operandsMatch_length m _ _ hops) ?_ ?_ ?_
    · intro k
      have := hget k
      unfold Instr.opTf
      cases h1 : i.ops[k]? <;> cases h2 : i'.ops[k]? <;> rw [h1, h2] at this <;> simp only [OptOpRel] at this
      · exact operandMatches_tf this
    · intro k
      exact optOpRel_eval hR args _ _ (hget k)
    · have := hget 0
      unfold Instr.opVal
      cases h1 : i.ops[0]? <;> cases h2 : i'.ops[0]? <;> rw [h1, h2] at this <;> simp only [OptOpRel] at this
      · exact operandMatches_builtin this
  · have hkb := (swapAllowed_sound i hs 0 0 (.int 0) (.int 0)).1
    rw [evalInstr_binOp args env' i' (hk ▸ hkb), evalInstr_binOp args env i hkb]
    have t0 : i.opTf 0 = x.tf := by simp [Instr.opTf, e]
    have t1 : i.opTf 1 = y.tf := by simp [Instr.opTf, e]
    have t0' : i'.opTf 0 = y.tf := by simp [Instr.opTf, e', operandMatches_tf hyx']
    have t1' : i'.opTf 1 = x.tf := by simp [Instr.opTf, e', operandMatches_tf hxy']
    rw [t0, t1, t0', t1', e, e', ← hop, ← htf]
    simp only [List.getElem?_cons_zero, List.getElem?_cons_succ, Option.bind_some]
    rw [evalOperand_iso hR args y x' hyx', evalOperand_iso hR args x y' hxy']
    exact binOpRes_swapAllowed i hs _ _ _ _

/-! ### the phis of a block -/

def OptIsoRel (m : Matching) (n : Nat) : Option Env → Option Env → Prop
  | some e, some e' => IsoRel m n e e'
  | none, none => True
  | _, _ => False

theorem execPhis_iso {f g : Func} {m : Matching} (I : Iso f g m) (args : List Value) (k : Nat) {old old' : Env}
    (hO : IsoRel m f.instrs.size old old') :
    ∀ (is is' : List Instr) (new new' : Env), instrsMatch m is is' = true → IsoRel m f.instrs.size new new' →
      OptIsoRel m f.instrs.size (execPhis args k old is new) (execPhis args k old' is' new')
  | [], [], _, _, _, hN => by simpa only [execPhis, OptIsoRel] using hN
  | [], _ :: _, _, _, h, _ => by simp [instrsMatch] at h
  | _ :: _, [], _, _, h, _ => by simp [instrsMatch] at h
  | j :: rest, j' :: rest', new, new', h, hN => by
    simp only [instrsMatch, Bool.and_eq_true] at h
    obtain ⟨hj, hrest⟩ := h
    have ih := fun e e' => execPhis_iso I args k hO rest rest' e e' hrest
    obtain ⟨hid, hk, _, _, _, hops⟩ := instrMatches_spec hj
    by_cases h1 : j.kind = .Phi
    · have h1' : j'.kind = .Phi := hk ▸ h1
      have hops' : operandsMatch m j.ops j'.ops = true := by
        rcases hops with hops | ⟨hs, _⟩
        · exact hops
        · have := (swapAllowed_sound j hs 0 0 (.int 0) (.int 0)).1
          rw [h1] at this
          cases this
      have hv := optOpRel_eval hO args _ _ (operandsMatch_get m _ _ hops' k)
      simp only [execPhis, h1, h1', bne_self_eq_false, Bool.false_eq_true, if_false]
      rw [hv]
      cases (j.ops[k]?).bind (evalOperand args old) with
      | none => trivial
      | some v => exact ih _ _ (IsoRel.envSet I hN j.id j'.id hid (some v))
    · have h1' : j'.kind ≠ .Phi := hk ▸ h1
      have e1 : (j.kind != Kind.Phi) = true := by simpa using h1
      have e2 : (j'.kind != Kind.Phi) = true := by simpa using h1'
      simp only [execPhis, e1, e2, if_true]
      exact ih _ _ hN

/-! ### the body of a block -/

def IsoExit (m : Matching) (n : Nat) : BlockExit → BlockExit → Prop
  | .goto b e, .goto b' e' => m.bm b = some b' ∧ IsoRel m n e e'
  | .done o, .done o' => o' = o
  | _, _ => False

theorem execBody_iso {f g : Func} {m : Matching} (I : Iso f g m) (args : List Value) {succs succs' : List Nat}
    (hS : natsMapTo m succs succs' = true) :
    ∀ (is is' : List Instr) (env env' : Env), instrsMatch m is is' = true → IsoRel m f.instrs.size env env' →
      IsoExit m f.instrs.size (execBody args succs is env) (execBody args succs' is' env')
  | [], [], _, _, _, _ => by simp only [execBody, IsoExit]
  | [], _ :: _, _, _, h, _ => by simp [instrsMatch] at h
  | _ :: _, [], _, _, h, _ => by simp [instrsMatch] at h
  | j :: rest, j' :: rest', env, env', h, hE => by
    simp only [instrsMatch, Bool.and_eq_true] at h
    obtain ⟨hj, hrest⟩ := h
    have ih := fun e e' => execBody_iso I args hS rest rest' e e' hrest
    obtain ⟨hid, hk, _, _, _, hops⟩ := instrMatches_spec hj
    have hpos : j.kind ≠ .BinOp → operandsMatch m j.ops j'.ops = true := by
      intro hnb
      rcases hops with hops | ⟨hs, _⟩
      · exact hops
      · exact absurd (swapAllowed_sound j hs 0 0 (.int 0) (.int 0)).1 hnb
    by_cases h1 : j.kind = .Phi
    · rw [execBody_phi _ _ _ _ _ h1, execBody_phi _ _ _ _ _ (hk ▸ h1)]
      exact ih env env' hE
    by_cases h2 : j.kind = .If
    · rw [execBody_if _ _ _ _ _ h2, execBody_if _ _ _ _ _ (hk ▸ h2)]
      have hv := optOpRel_eval hE args _ _ (operandsMatch_get m _ _ (hpos (by rw [h2]; simp)) 0)
      rw [hv]
      rcases succs with _ | ⟨s0, _ | ⟨s1, _ | ⟨s2, t⟩⟩⟩ <;> rcases succs' with _ | ⟨s0', _ | ⟨s1', _ | ⟨s2', t'⟩⟩⟩ <;>
        simp only [natsMapTo, Bool.and_eq_true, beq_iff_eq, Bool.false_eq_true, and_false] at hS
      · cases (j.ops[0]?).bind (evalOperand args env) with
        | none => trivial
        | some v => cases v <;> trivial
      · cases (j.ops[0]?).bind (evalOperand args env) with
        | none => trivial
        | some v => cases v <;> trivial
      · cases (j.ops[0]?).bind (evalOperand args env) with
        | none => trivial
        | some v =>
          cases v <;> try trivial
          rename_i c
          refine ⟨?_, hE⟩
          cases c
          · exact hS.2.1
          · exact hS.1
      · cases (j.ops[0]?).bind (evalOperand args env) with
        | none => trivial
        | some v => cases v <;> trivial
    by_cases h3 : j.kind = .Jump
    · rw [execBody_jump _ _ _ _ _ h3, execBody_jump _ _ _ _ _ (hk ▸ h3)]
      rcases succs with _ | ⟨s0, _ | ⟨s1, t⟩⟩ <;> rcases succs' with _ | ⟨s0', _ | ⟨s1', t'⟩⟩ <;>
        simp only [natsMapTo, Bool.and_eq_true, beq_iff_eq, Bool.false_eq_true, and_false] at hS
      · trivial
      · exact ⟨hS.1, hE⟩
      · trivial
    by_cases h4 : j.kind = .Return
    · rw [execBody_return _ _ _ _ _ h4, execBody_return _ _ _ _ _ (hk ▸ h4),
        execReturn_iso hE args _ _ (hpos (by rw [h4]; simp))]
      split <;> rfl
    by_cases h5 : j.kind = .Panic
    · rw [execBody_panic _ _ _ _ _ h5, execBody_panic _ _ _ _ _ (hk ▸ h5)]
      rfl
    · rw [execBody_other _ _ _ _ _ h1 h2 h3 h4 h5,
        execBody_other _ _ _ _ _ (hk ▸ h1) (hk ▸ h2) (hk ▸ h3) (hk ▸ h4) (hk ▸ h5),
        evalInstr_iso hE args j j' hj]
      cases evalInstr args env j with
      | ok v => exact ih _ _ (IsoRel.envSet I hE j.id j'.id hid v)
      | panic => exact rfl
      | stuck => exact rfl

/-! ### the position of an edge among the predecessors -/

theorem indexOf?_go_iso {f g : Func} {m : Matching} (I : Iso f g m) {p p' : Nat} (hp : m.bm p = some p') :
    ∀ (l l' : List Nat) (k : Nat), natsMapTo m l l' = true → indexOf?.go p' l' k = indexOf?.go p l k
  | [], [], _, _ => rfl
  | [], _ :: _, _, h => by simp [natsMapTo] at h
  | _ :: _, [], _, h => by simp [natsMapTo] at h
  | y :: ys, y' :: ys', k, h => by
    simp only [natsMapTo, Bool.and_eq_true, beq_iff_eq] at h
    simp only [indexOf?.go]
    have ih := indexOf?_go_iso I hp ys ys' (k + 1) h.2
    by_cases hy : y = p
    · have hy' : y' = p' := by
        have := h.1
        rw [hy, hp] at this
        exact (Option.some.inj this).symm
      simp [hy, hy']
    · have hy' : y' ≠ p' := fun e => hy (I.bmInj y p p' (e ▸ h.1) hp)
      simp [hy, hy', ih]

theorem indexOf?_iso {f g : Func} {m : Matching} (I : Iso f g m) {p p' : Nat} (hp : m.bm p = some p')
    (l l' : List Nat) (h : natsMapTo m l l' = true) : indexOf? l' p' = indexOf? l p :=
  indexOf?_go_iso I hp l l' 0 h

/-! ### the whole function -/

theorem optEnv_tail_iso {m : Matching} {n : Nat} (r r' : Option Env) (k k' : Env → Outcome) (h : OptIsoRel m n r r')
    (hk : ∀ e e', IsoRel m n e e' → k' e' = k e) :
    (match (generalizing := false) r' with | none => Outcome.stuck | some e => k' e) =
      (match (generalizing := false) r with | none => Outcome.stuck | some e => k e) := by
  cases r <;> cases r' <;> simp only [OptIsoRel] at h
  · rfl
  · exact hk _ _ h

theorem exit_tail_iso {m : Matching} {n : Nat} (x x' : BlockExit) (k k' : Nat → Env → Outcome) (h : IsoExit m n x x')
    (hk : ∀ nb nb' e e', m.bm nb = some nb' → IsoRel m n e e' → k' nb' e' = k nb e) :
    (match (generalizing := false) x' with | .done o => o | .goto nb e => k' nb e) =
      (match (generalizing := false) x with | .done o => o | .goto nb e => k nb e) := by
  cases x <;> cases x' <;> simp only [IsoExit] at h
  · exact hk _ _ _ _ h.1 h.2
  · exact h

/-- corresponding predecessors -/
def OptBm (m : Matching) : Option Nat → Option Nat → Prop
  | some p, some p' => m.bm p = some p'
  | none, none => True
  | _, _ => False

theorem runFrom_iso {f g : Func} {m : Matching} (I : Iso f g m) (args : List Value) :
    ∀ (fuel : Nat) (prev prev' : Option Nat) (b b' : Nat) (env env' : Env), OptBm m prev prev' →
      m.bm b = some b' → IsoRel m f.instrs.size env env' →
      runFrom g args fuel prev' b' env' = runFrom f args fuel prev b env
  | 0, _, _, _, _, _, _, _, _, _ => rfl
  | fuel + 1, prev, prev', b, b', env, env', hP, hb, hE => by
    obtain ⟨bl, bl', e1, e2, hsucc, hpred, hinstr⟩ := I.blk b b' hb
    simp only [runFrom, e1, e2]
    have hphi : OptIsoRel m f.instrs.size
        (match (generalizing := false) prev with
         | none => some env
         | some p =>
           match indexOf? bl.preds p with
           | some k => execPhis args k env bl.instrs env
           | none => none)
        (match (generalizing := false) prev' with
         | none => some env'
         | some p =>
           match indexOf? bl'.preds p with
           | some k => execPhis args k env' bl'.instrs env'
           | none => none) := by
      cases prev <;> cases prev' <;> simp only [OptBm] at hP
      · exact hE
      · simp only
        rw [indexOf?_iso I hP _ _ hpred]
        cases indexOf? bl.preds _ with
        | none => trivial
        | some k => exact execPhis_iso I args k hE _ _ env env' hinstr hE
    refine optEnv_tail_iso _ _ _ _ hphi (fun e e' hE1 => ?_)
    exact exit_tail_iso _ _ _ _ (execBody_iso I args hsucc _ _ e e' hinstr hE1)
      (fun nb nb' e2 e2' hnb hE2 => runFrom_iso I args fuel (some b) (some b') nb nb' e2 e2' hb hnb hE2)

theorem run_iso (f g : Func) (m : Matching) (h : isoCheck f g m = true) (args : List Value) (fuel : Nat) :
    run f args fuel = run g args fuel := by
  have I := Iso.of_isoCheck f g m h
  unfold run Func.nInstrs
  rw [I.isize]
  exact (runFrom_iso I args fuel none none 0 0 _ _ trivial I.b0 (IsoRel.replicate m _)).symm

end Sfw.Canon.Sem
