/-
  Additional lexicographic / key-shape facts used by the C06 refinement proof
  (fully proved; complements Lemmas/Lex.lean).
-/
import SfwModel.Model.Store
import SfwModel.Lemmas.KV
import Mathlib.Tactic.SplitIfs
namespace Sfw.Store

theorem utf8Char_ne_nil (c : Char) : utf8Char c ≠ [] := by
  unfold utf8Char
  simp only
  split_ifs <;> simp

theorem bytes_eq_nil {s : Str} : bytes s = [] ↔ s = [] := by
  cases s with
  | nil => simp [bytes]
  | cons c t =>
    simp only [bytes, List.flatMap_cons, List.append_eq_nil_iff, reduceCtorEq, iff_false, not_and]
    intro h
    exact absurd h (utf8Char_ne_nil c)

theorem bytes_ne_nil {s : Str} (h : s ≠ []) : bytes s ≠ [] := fun h' => h (bytes_eq_nil.mp h')

/-! ### the literal prefixes -/
theorem pSig_eq : pSig = [115, 105, 103] ++ [58] := by decide
theorem pTopo_eq : pTopo = [116, 111, 112, 111] ++ [58] := by decide
theorem pFuzzy_eq : pFuzzy = [102, 117, 122, 122, 121] ++ [58] := by decide
theorem pEntr_eq : pEntr = [101, 110, 116, 114] ++ [58] := by decide
theorem pMeta_eq : pMeta = [109, 101, 116, 97] ++ [58] := by decide

/-! ### keys depend only on the bytes of their components -/
theorem sigKey_congr {a b : Str} (h : bytes a = bytes b) : sigKey a = sigKey b := by
  simp [sigKey, h]
theorem topoKey_congr {h1 h2 i1 i2 : Str} (h : bytes h1 = bytes h2) (hi : bytes i1 = bytes i2) :
    topoKey h1 i1 = topoKey h2 i2 := by simp [topoKey, h, hi]
theorem fuzzyKey_congr {h1 h2 i1 i2 : Str} (h : bytes h1 = bytes h2) (hi : bytes i1 = bytes i2) :
    fuzzyKey h1 i1 = fuzzyKey h2 i2 := by simp [fuzzyKey, h, hi]
theorem entrKey_congr {e : Rat} {i1 i2 : Str} (hi : bytes i1 = bytes i2) :
    entrKey e i1 = entrKey e i2 := by simp [entrKey, hi]

/-! ### lexicographic order and common prefixes -/
theorem cons_lt_cons_self {a : Nat} {x y : Key} : (a :: x) < (a :: y) ↔ x < y := by
  constructor
  · intro h
    cases h with
    | cons h => exact h
    | rel h => exact absurd h (Nat.lt_irrefl _)
  · intro h; exact List.Lex.cons h

theorem append_lt_append_left (p : Key) {x y : Key} : p ++ x < p ++ y ↔ x < y := by
  induction p with
  | nil => simp
  | cons a t ih => rw [List.cons_append, List.cons_append, cons_lt_cons_self, ih]

theorem append_le_append_left (p : Key) {x y : Key} : p ++ x ≤ p ++ y ↔ x ≤ y := by
  constructor
  · intro h
    exact kle_of_not_lt (fun h' => knot_lt_of_le h ((append_lt_append_left p).mpr h'))
  · intro h
    exact kle_of_not_lt (fun h' => knot_lt_of_le h ((append_lt_append_left p).mp h'))

end Sfw.Store
