/-
  Lemmas behind Props/C12Dom.lean: the worklist search `reachAvoidLoop` of Model/Canon/Dom.lean marks
  exactly the in-range blocks that a root reaches along a path avoiding one block, and the fuel
  `nEdges + nBlocks + 3` is enough for the worklist to run empty.
-/
import SfwModel.Model.Canon.Dom
namespace Sfw.Canon.DomLemmas
open Sfw.Canon

/-! ### bit arrays -/

theorem bitGet_of_size_le {s : Array Bool} {i : Nat} (h : s.size ≤ i) : bitGet s i = false := by
  simp [bitGet, Array.getD, Nat.not_lt.mpr h]

theorem bitSet_size (s : Array Bool) (i : Nat) : (bitSet s i).size = s.size := by
  simp [bitSet]

theorem bitSet_of_size_le {s : Array Bool} {i : Nat} (h : s.size ≤ i) : bitSet s i = s := by
  simp [bitSet, Array.setIfInBounds, Nat.not_lt.mpr h]

theorem bitGet_bitSet (s : Array Bool) (b x : Nat) :
    bitGet (bitSet s b) x = true ↔ (x = b ∧ b < s.size) ∨ bitGet s x = true := by
  unfold bitGet bitSet
  rw [Array.getD_eq_getD_getElem?, Array.getD_eq_getD_getElem?, Array.getElem?_setIfInBounds]
  by_cases hx : b = x
  · subst hx
    by_cases hb : b < s.size
    · simp [hb]
    · simp [hb]
  · have hx' : ¬ x = b := fun h => hx h.symm
    simp [hx, hx']

theorem bitGet_replicate (n i : Nat) : bitGet (Array.replicate n false) i = false := by
  unfold bitGet
  rw [Array.getD_eq_getD_getElem?, Array.getElem?_replicate]
  by_cases h : i < n <;> simp [h]

theorem succs_of_nBlocks_le {f : Func} {b : Nat} (h : f.nBlocks ≤ b) : f.succs b = [] := by
  unfold Func.succs Func.nBlocks at *
  rw [Array.getElem?_eq_none h]


/-! ### sums over `List.range` -/

theorem sum_range_congr (g g' : Nat → Nat) : ∀ n, (∀ i, i < n → g' i = g i) →
    ((List.range n).map g').sum = ((List.range n).map g).sum := by
  intro n h
  have : (List.range n).map g' = (List.range n).map g :=
    List.map_congr_left (fun i hi => h i (List.mem_range.mp hi))
  rw [this]

/-- zeroing one summand -/
theorem sum_range_zero_one (g g' : Nat → Nat) (b : Nat) (hb0 : g' b = 0)
    (hne : ∀ i, i ≠ b → g' i = g i) : ∀ n, b < n →
    ((List.range n).map g').sum + g b = ((List.range n).map g).sum := by
  intro n
  induction n with
  | zero => intro h; omega
  | succ n ih =>
    intro h
    rw [List.range_succ, List.map_append, List.map_append, List.sum_append, List.sum_append]
    simp only [List.map_cons, List.map_nil, List.sum_cons, List.sum_nil, Nat.add_zero]
    by_cases hbn : b = n
    · subst hbn
      rw [sum_range_congr g g' b (fun i hi => hne i (by omega)), hb0]; omega
    · have := ih (by omega)
      rw [hne n (fun h => hbn h.symm)]; omega

/-- sum of the successor-list lengths of the blocks not yet marked -/
def unmarkedEdges (f : Func) (seen : Array Bool) : Nat :=
  ((List.range f.nBlocks).map (fun i => if bitGet seen i = true then 0 else (f.succs i).length)).sum

theorem unmarkedEdges_bitSet (f : Func) (seen : Array Bool) (b : Nat) (hb : b < f.nBlocks)
    (hsz : seen.size = f.nBlocks) (hnot : bitGet seen b = false) :
    unmarkedEdges f (bitSet seen b) + (f.succs b).length = unmarkedEdges f seen := by
  unfold unmarkedEdges
  have := sum_range_zero_one (fun i => if bitGet seen i = true then 0 else (f.succs i).length)
    (fun i => if bitGet (bitSet seen b) i = true then 0 else (f.succs i).length) b
    (by
      have : bitGet (bitSet seen b) b = true := (bitGet_bitSet seen b b).mpr (Or.inl ⟨rfl, by omega⟩)
      simp [this])
    (by
      intro i hi
      have : bitGet (bitSet seen b) i = true ↔ bitGet seen i = true := by
        rw [bitGet_bitSet]; constructor
        · rintro (⟨h, _⟩ | h)
          · exact absurd h hi
          · exact h
        · exact Or.inr
      simp only [this])
    f.nBlocks hb
  simpa [hnot] using this

theorem sum_getElem?_range (l : List Block) :
    ((List.range l.length).map (fun i => (match l[i]? with | some bl => bl.succs | none => []).length)).sum
      = (l.map (fun b => b.succs.length)).sum := by
  induction l with
  | nil => simp
  | cons x xs ih =>
    rw [List.length_cons, List.range_succ_eq_map, List.map_cons, List.sum_cons, List.map_map]
    simp only [List.map_cons, List.sum_cons, List.getElem?_cons_zero]
    congr 1

theorem foldl_add_eq_sum (l : List Block) : ∀ n : Nat,
    l.foldl (fun n b => n + b.succs.length) n = n + (l.map (fun b => b.succs.length)).sum := by
  induction l with
  | nil => intro n; simp
  | cons x xs ih => intro n; rw [List.foldl_cons, ih]; simp; omega

theorem unmarkedEdges_replicate (f : Func) :
    unmarkedEdges f (Array.replicate f.nBlocks false) = f.nEdges := by
  unfold unmarkedEdges Func.nEdges
  rw [← Array.foldl_toList, foldl_add_eq_sum, Nat.zero_add, ← sum_getElem?_range]
  have : f.nBlocks = f.blocks.toList.length := by simp [Func.nBlocks]
  rw [this]
  congr 1
  apply List.map_congr_left
  intro i _
  simp only [bitGet_replicate, Func.succs]
  rw [← Array.getElem?_toList]
  rfl


/-! ### the loop -/

theorem loop_zero (f : Func) (a : Nat) (work : List Nat) (seen : Array Bool) :
    reachAvoidLoop f a 0 work seen = seen := by
  unfold reachAvoidLoop; rfl

theorem loop_nil (f : Func) (a fuel : Nat) (seen : Array Bool) :
    reachAvoidLoop f a fuel [] seen = seen := by
  cases fuel <;> (unfold reachAvoidLoop; rfl)

theorem loop_cons (f : Func) (a fuel b : Nat) (work : List Nat) (seen : Array Bool) :
    reachAvoidLoop f a (fuel + 1) (b :: work) seen =
      if (b == a || bitGet seen b) = true then reachAvoidLoop f a fuel work seen
      else reachAvoidLoop f a fuel (f.succs b ++ work) (bitSet seen b) := by
  conv => lhs; unfold reachAvoidLoop

/-- soundness of the marks, for any property `R` that is passed along the edges that do not enter `a` -/
theorem loop_sound (f : Func) (a : Nat) (R : Nat → Prop)
    (hstep : ∀ x y, R x → y ∈ f.succs x → y ≠ a → R y) :
    ∀ (fuel : Nat) (work : List Nat) (seen : Array Bool),
      (∀ x, bitGet seen x = true → R x) → (∀ w ∈ work, w ≠ a → R w) →
      ∀ x, bitGet (reachAvoidLoop f a fuel work seen) x = true → R x := by
  intro fuel
  induction fuel with
  | zero => intro work seen hs _ x hx; rw [loop_zero] at hx; exact hs x hx
  | succ fuel ih =>
    intro work seen hs hw x hx
    cases work with
    | nil => rw [loop_nil] at hx; exact hs x hx
    | cons b work =>
      rw [loop_cons] at hx
      split at hx
      · exact ih work seen hs (fun w hw' => hw w (List.mem_cons_of_mem _ hw')) x hx
      · rename_i hc
        simp only [Bool.or_eq_true, beq_iff_eq, not_or] at hc
        have hRb : R b := hw b (List.mem_cons_self ..) hc.1
        refine ih (f.succs b ++ work) (bitSet seen b) ?_ ?_ x hx
        · intro z hz
          rcases (bitGet_bitSet seen b z).mp hz with ⟨h, _⟩ | h
          · exact h ▸ hRb
          · exact hs z h
        · intro w hw' hwa
          rcases List.mem_append.mp hw' with h | h
          · exact hstep b w hRb h hwa
          · exact hw w (List.mem_cons_of_mem _ h) hwa

/-- every successor of a marked block is `a`, out of range, marked, or waiting on the worklist -/
def Inv (f : Func) (a : Nat) (work : List Nat) (seen : Array Bool) : Prop :=
  ∀ x, bitGet seen x = true → ∀ y ∈ f.succs x, y = a ∨ f.nBlocks ≤ y ∨ bitGet seen y = true ∨ y ∈ work

/-- completeness: with enough fuel the worklist runs empty, so the marked set is closed under the
    successor edges that do not enter `a`, and contains what was on the worklist -/
theorem loop_complete (f : Func) (a : Nat) :
    ∀ (fuel : Nat) (work : List Nat) (seen : Array Bool),
      seen.size = f.nBlocks → work.length + unmarkedEdges f seen ≤ fuel → Inv f a work seen →
      Inv f a [] (reachAvoidLoop f a fuel work seen) ∧
      (∀ x, bitGet seen x = true → bitGet (reachAvoidLoop f a fuel work seen) x = true) ∧
      (∀ w ∈ work, w = a ∨ f.nBlocks ≤ w ∨ bitGet (reachAvoidLoop f a fuel work seen) w = true) := by
  intro fuel
  induction fuel with
  | zero =>
    intro work seen _ hfuel hinv
    have : work = [] := List.eq_nil_of_length_eq_zero (by omega)
    subst this
    rw [loop_zero]
    exact ⟨hinv, fun _ h => h, fun w hw => absurd hw List.not_mem_nil⟩
  | succ fuel ih =>
    intro work seen hsz hfuel hinv
    cases work with
    | nil =>
      rw [loop_nil]
      exact ⟨hinv, fun _ h => h, fun w hw => absurd hw List.not_mem_nil⟩
    | cons b work =>
      rw [loop_cons]
      simp only [List.length_cons] at hfuel
      split
      · rename_i hc
        simp only [Bool.or_eq_true, beq_iff_eq] at hc
        have hinv' : Inv f a work seen := by
          intro x hx y hy
          rcases hinv x hx y hy with h | h | h | h
          · exact Or.inl h
          · exact Or.inr (Or.inl h)
          · exact Or.inr (Or.inr (Or.inl h))
          · rcases List.mem_cons.mp h with h | h
            · subst h
              rcases hc with hc | hc
              · exact Or.inl hc
              · exact Or.inr (Or.inr (Or.inl hc))
            · exact Or.inr (Or.inr (Or.inr h))
        obtain ⟨h1, h2, h3⟩ := ih work seen hsz (by omega) hinv'
        refine ⟨h1, h2, ?_⟩
        intro w hw
        rcases List.mem_cons.mp hw with h | h
        · subst h
          rcases hc with hc | hc
          · exact Or.inl hc
          · exact Or.inr (Or.inr (h2 _ hc))
        · exact h3 w h
      · rename_i hc
        simp only [Bool.or_eq_true, beq_iff_eq, not_or, Bool.not_eq_true] at hc
        by_cases hb : b < f.nBlocks
        · -- an in-range block is marked and expanded
          have hU := unmarkedEdges_bitSet f seen b hb hsz hc.2
          have hinv' : Inv f a (f.succs b ++ work) (bitSet seen b) := by
            intro x hx y hy
            rcases (bitGet_bitSet seen b x).mp hx with ⟨hxb, _⟩ | hx'
            · subst hxb
              exact Or.inr (Or.inr (Or.inr (List.mem_append_left _ hy)))
            · rcases hinv x hx' y hy with h | h | h | h
              · exact Or.inl h
              · exact Or.inr (Or.inl h)
              · exact Or.inr (Or.inr (Or.inl ((bitGet_bitSet seen b y).mpr (Or.inr h))))
              · rcases List.mem_cons.mp h with h | h
                · subst h
                  exact Or.inr (Or.inr (Or.inl ((bitGet_bitSet seen y y).mpr (Or.inl ⟨rfl, by omega⟩))))
                · exact Or.inr (Or.inr (Or.inr (List.mem_append_right _ h)))
          obtain ⟨h1, h2, h3⟩ := ih (f.succs b ++ work) (bitSet seen b)
            (by rw [bitSet_size]; exact hsz) (by rw [List.length_append]; omega) hinv'
          refine ⟨h1, fun x hx => h2 x ((bitGet_bitSet seen b x).mpr (Or.inr hx)), ?_⟩
          intro w hw
          rcases List.mem_cons.mp hw with h | h
          · subst h
            exact Or.inr (Or.inr (h2 _ ((bitGet_bitSet seen w w).mpr (Or.inl ⟨rfl, by omega⟩))))
          · exact h3 w (List.mem_append_right _ h)
        · -- an out-of-range index: nothing is marked, nothing is pushed
          have hb' : f.nBlocks ≤ b := by omega
          rw [succs_of_nBlocks_le hb', bitSet_of_size_le (by omega), List.nil_append]
          have hinv' : Inv f a work seen := by
            intro x hx y hy
            rcases hinv x hx y hy with h | h | h | h
            · exact Or.inl h
            · exact Or.inr (Or.inl h)
            · exact Or.inr (Or.inr (Or.inl h))
            · rcases List.mem_cons.mp h with h | h
              · subst h; exact Or.inr (Or.inl hb')
              · exact Or.inr (Or.inr (Or.inr h))
          obtain ⟨h1, h2, h3⟩ := ih work seen hsz (by omega) hinv'
          refine ⟨h1, h2, ?_⟩
          intro w hw
          rcases List.mem_cons.mp hw with h | h
          · subst h; exact Or.inr (Or.inl hb')
          · exact h3 w h

theorem domRoots_length_le (f : Func) : (domRoots f).length ≤ 2 := by
  unfold domRoots
  rw [List.length_append]
  have h1 : (if (f.nBlocks == 0) = true then ([] : List Nat) else [0]).length ≤ 1 := by
    split <;> simp
  cases f.recover with
  | none => simp only [List.length_nil]; omega
  | some r =>
    have h2 : (if (r == 0) = true then ([] : List Nat) else [r]).length ≤ 1 := by
      split <;> simp
    simp only []
    omega

/-- what `reachAvoid` marks, in one statement -/
theorem reachAvoid_spec (f : Func) (a : Nat) :
    Inv f a [] (reachAvoid f a) ∧
    (∀ r ∈ domRoots f, r = a ∨ f.nBlocks ≤ r ∨ bitGet (reachAvoid f a) r = true) := by
  have := loop_complete f a (f.nEdges + f.nBlocks + 3) (domRoots f) (Array.replicate f.nBlocks false)
    (by simp) (by rw [unmarkedEdges_replicate]; have := domRoots_length_le f; omega)
    (by intro x hx; rw [bitGet_replicate] at hx; exact absurd hx (by simp))
  exact ⟨this.1, this.2.2⟩

theorem reachAvoid_sound (f : Func) (a : Nat) (R : Nat → Prop)
    (hstep : ∀ x y, R x → y ∈ f.succs x → y ≠ a → R y)
    (hroot : ∀ r ∈ domRoots f, r ≠ a → R r) :
    ∀ x, bitGet (reachAvoid f a) x = true → R x :=
  loop_sound f a R hstep _ _ _
    (by intro x hx; rw [bitGet_replicate] at hx; exact absurd hx (by simp)) hroot

end Sfw.Canon.DomLemmas
