/-
  Helper lemmas about the sorted association list that models Pebble: get/set/del/delRange laws,
  sortedness is preserved, extensionality by `get`.
-/
import SfwModel.Model.Store
import Mathlib.Tactic.Linarith
import Mathlib.Tactic.SplitIfs
namespace Sfw.Store

def Sorted (kv : KV) : Prop := kv.Pairwise (fun a b => a.1 < b.1)

theorem sorted_nil : Sorted [] := List.Pairwise.nil

/-! ### the order on keys (core lemmas, spelled for `Key`) -/
theorem klt_trans {a b c : Key} (h : a < b) (h2 : b < c) : a < c := List.lt_trans h h2
theorem klt_irrefl (a : Key) : ¬ a < a := List.lt_irrefl a
theorem kle_of_not_lt {a b : Key} (h : ¬ a < b) : b ≤ a := List.not_lt.mp h
theorem klt_of_not_le {a b : Key} (h : ¬ a ≤ b) : b < a := List.not_le.mp h
theorem kle_antisymm {a b : Key} (h : a ≤ b) (h2 : b ≤ a) : a = b := List.le_antisymm h h2
theorem kle_of_lt {a b : Key} (h : a < b) : a ≤ b := List.le_of_lt h
theorem klt_of_le_of_lt {a b c : Key} (h : a ≤ b) (h2 : b < c) : a < c := List.lt_of_le_of_lt h h2
theorem klt_of_lt_of_le {a b c : Key} (h : a < b) (h2 : b ≤ c) : a < c := Std.lt_of_lt_of_le h h2
theorem kle_trans {a b c : Key} (h : a ≤ b) (h2 : b ≤ c) : a ≤ c := List.le_trans h h2
theorem kle_refl (a : Key) : a ≤ a := List.le_refl a
theorem kne_of_lt {a b : Key} (h : a < b) : a ≠ b := Std.ne_of_lt h
theorem knot_lt_of_le {a b : Key} (h : a ≤ b) : ¬ b < a := fun h2 => klt_irrefl _ (klt_of_le_of_lt h h2)
theorem klt_of_ne_of_not_lt {a b : Key} (h1 : a ≠ b) (h2 : ¬ a < b) : b < a :=
  klt_of_not_le (fun hle => h1 (kle_antisymm hle (kle_of_not_lt h2)))

theorem mem_set {kv : KV} {k : Key} {v : Val} {e : Key × Val} (h : e ∈ kv.set k v) :
    e = (k, v) ∨ e ∈ kv := by
  induction kv with
  | nil => simp [KV.set] at h; exact Or.inl h
  | cons hd tl ih =>
    obtain ⟨k', v'⟩ := hd
    simp only [KV.set] at h
    split_ifs at h with h1 h2
    · simp only [List.mem_cons] at h ⊢
      rcases h with h | h
      · exact Or.inl h
      · exact Or.inr (Or.inr h)
    · simp only [List.mem_cons] at h ⊢
      rcases h with h | h | h
      · exact Or.inl h
      · exact Or.inr (Or.inl h)
      · exact Or.inr (Or.inr h)
    · simp only [List.mem_cons] at h ⊢
      rcases h with h | h
      · exact Or.inr (Or.inl h)
      · rcases ih h with h | h
        · exact Or.inl h
        · exact Or.inr (Or.inr h)

theorem sorted_set {kv : KV} (h : Sorted kv) (k : Key) (v : Val) : Sorted (kv.set k v) := by
  induction kv with
  | nil => simp [KV.set, Sorted]
  | cons hd tl ih =>
    obtain ⟨k', v'⟩ := hd
    unfold Sorted at h ih ⊢
    rw [List.pairwise_cons] at h
    simp only [KV.set]
    split_ifs with h1 h2
    · subst h1
      exact List.pairwise_cons.mpr ⟨h.1, h.2⟩
    · have hlt : k < k' := by simpa [keyLt] using h2
      refine List.pairwise_cons.mpr ⟨?_, List.pairwise_cons.mpr h⟩
      intro e he
      rcases List.mem_cons.mp he with he | he
      · subst he; exact hlt
      · exact klt_trans hlt (h.1 e he)
    · have hlt : k' < k := by
        have : ¬ k < k' := by simpa [keyLt] using h2
        exact klt_of_ne_of_not_lt h1 this
      refine List.pairwise_cons.mpr ⟨?_, ih h.2⟩
      intro e he
      rcases mem_set he with he | he
      · subst he; exact hlt
      · exact h.1 e he

theorem sorted_del {kv : KV} (h : Sorted kv) (k : Key) : Sorted (kv.del k) :=
  List.Pairwise.filter _ h

theorem sorted_delRange {kv : KV} (h : Sorted kv) (lo hi : Key) : Sorted (kv.delRange lo hi) :=
  List.Pairwise.filter _ h

theorem sorted_applyOp {kv : KV} (h : Sorted kv) (op : BOp) : Sorted (applyOp kv op) := by
  cases op <;> simp only [applyOp]
  · exact sorted_set h _ _
  · exact sorted_del h _
  · exact sorted_delRange h _ _

theorem sorted_applyBatch {kv : KV} (h : Sorted kv) (b : List BOp) : Sorted (applyBatch kv b) := by
  unfold applyBatch
  induction b generalizing kv with
  | nil => exact h
  | cons op rest ih => exact ih (sorted_applyOp h op)

theorem get_nil (k : Key) : KV.get [] k = none := rfl

theorem get_cons (k' : Key) (v' : Val) (tl : KV) (k : Key) :
    KV.get ((k', v') :: tl) k = if k' = k then some v' else KV.get tl k := by
  simp only [KV.get, List.find?_cons]
  by_cases h : k' = k <;> simp [h]

theorem get_eq_none_of_lt {kv : KV} {k : Key} (h : ∀ e ∈ kv, k < e.1) : kv.get k = none := by
  induction kv with
  | nil => rfl
  | cons hd tl ih =>
    obtain ⟨k', v'⟩ := hd
    rw [get_cons]
    have := h (k', v') (List.mem_cons_self)
    rw [if_neg (Ne.symm (kne_of_lt this))]
    exact ih (fun e he => h e (List.mem_cons_of_mem _ he))

theorem get_set (kv : KV) (hs : Sorted kv) (k k' : Key) (v : Val) :
    (kv.set k v).get k' = if k' = k then some v else kv.get k' := by
  induction kv with
  | nil =>
    simp only [KV.set, get_cons, get_nil]
    by_cases h : k = k' <;> simp [h, eq_comm]
  | cons hd tl ih =>
    obtain ⟨k1, v1⟩ := hd
    unfold Sorted at hs ih
    rw [List.pairwise_cons] at hs
    simp only [KV.set]
    by_cases h1 : k = k1
    · subst h1
      rw [if_pos rfl, get_cons, get_cons]
      by_cases h3 : k' = k
      · subst h3; simp
      · rw [if_neg (Ne.symm h3), if_neg (Ne.symm h3), if_neg h3]
    · rw [if_neg h1]
      by_cases h2 : keyLt k k1 = true
      · rw [if_pos h2, get_cons]
        by_cases h3 : k' = k
        · subst h3; simp
        · rw [if_neg (Ne.symm h3), if_neg h3]
      · rw [if_neg h2, get_cons, get_cons, ih hs.2]
        by_cases h4 : k' = k
        · subst h4
          rw [if_neg (Ne.symm h1), if_pos rfl, if_pos rfl]
        · rw [if_neg h4, if_neg h4]

theorem get_filter (kv : KV) (p : Key → Bool) (k : Key) :
    KV.get (kv.filter (fun e => p e.1)) k = if p k then kv.get k else none := by
  induction kv with
  | nil => simp [get_nil]
  | cons hd tl ih =>
    obtain ⟨k1, v1⟩ := hd
    rw [List.filter_cons]
    by_cases hp : p k1 = true
    · rw [if_pos hp, get_cons, get_cons, ih]
      by_cases h : k1 = k
      · subst h; simp [hp]
      · simp [h]
    · rw [if_neg hp, get_cons, ih]
      by_cases h : k1 = k
      · subst h; simp [hp]
      · simp [h]

theorem get_del (kv : KV) (k k' : Key) :
    (kv.del k).get k' = if k' = k then none else kv.get k' := by
  have := get_filter kv (fun x => decide (x ≠ k)) k'
  simp only [KV.del]
  rw [this]
  by_cases h : k' = k <;> simp [h]

theorem get_delRange (kv : KV) (lo hi k' : Key) :
    (kv.delRange lo hi).get k' = if lo ≤ k' ∧ k' < hi then none else kv.get k' := by
  have := get_filter kv (fun x => !(decide (lo ≤ x) && keyLt x hi)) k'
  simp only [KV.delRange]
  refine this.trans ?_
  by_cases h : lo ≤ k' ∧ k' < hi
  · rw [if_pos h]; simp [keyLt, h.1, h.2]
  · rw [if_neg h]
    have : (!(decide (lo ≤ k') && keyLt k' hi)) = true := by
      simp only [keyLt, Bool.not_eq_true', Bool.and_eq_false_iff, decide_eq_false_iff_not]
      exact not_and_or.mp h
    rw [if_pos this]

theorem get_iter (kv : KV) (lo hi k' : Key) :
    (kv.iter lo hi).get k' = if lo ≤ k' ∧ k' < hi then kv.get k' else none := by
  have := get_filter kv (fun x => (decide (lo ≤ x) && keyLt x hi)) k'
  simp only [KV.iter]
  refine this.trans ?_
  by_cases h : lo ≤ k' ∧ k' < hi
  · rw [if_pos h]; simp [keyLt, h.1, h.2]
  · rw [if_neg h]
    have : ¬ ((decide (lo ≤ k') && keyLt k' hi)) = true := by
      simpa [keyLt] using h
    rw [if_neg this]

theorem mem_iff_get {kv : KV} (hs : Sorted kv) (k : Key) (v : Val) :
    (k, v) ∈ kv ↔ kv.get k = some v := by
  induction kv with
  | nil => simp [get_nil]
  | cons hd tl ih =>
    obtain ⟨k1, v1⟩ := hd
    unfold Sorted at hs ih
    rw [List.pairwise_cons] at hs
    rw [get_cons, List.mem_cons]
    by_cases h : k1 = k
    · subst h
      rw [if_pos rfl]
      constructor
      · rintro (h | h)
        · simp at h; simp [h]
        · exact absurd (hs.1 _ h) (klt_irrefl _)
      · intro h; simp at h; simp [h]
    · rw [if_neg h, ← ih hs.2]
      constructor
      · rintro (h' | h')
        · simp at h'; exact absurd h'.1.symm h
        · exact h'
      · exact Or.inr

/-- two sorted stores with the same `get` are equal -/
theorem ext_get {a b : KV} (ha : Sorted a) (hb : Sorted b) (h : ∀ k, a.get k = b.get k) : a = b := by
  induction a generalizing b with
  | nil =>
    cases b with
    | nil => rfl
    | cons hd tl =>
      obtain ⟨k2, v2⟩ := hd
      have := h k2
      rw [get_cons, if_pos rfl, get_nil] at this
      cases this
  | cons hd ta ih =>
    obtain ⟨k1, v1⟩ := hd
    cases b with
    | nil =>
      have := h k1
      rw [get_cons, if_pos rfl, get_nil] at this
      cases this
    | cons hd tb =>
      obtain ⟨k2, v2⟩ := hd
      unfold Sorted at ha hb ih
      rw [List.pairwise_cons] at ha hb
      have hk : k1 = k2 := by
        by_cases h12 : k1 < k2
        · have := h k1
          rw [get_cons, if_pos rfl, get_cons, if_neg (Ne.symm (kne_of_lt h12)),
            get_eq_none_of_lt (fun e he => klt_trans h12 (hb.1 e he))] at this
          cases this
        · by_cases h21 : k2 < k1
          · have := h k2
            rw [get_cons, if_neg (Ne.symm (kne_of_lt h21)), get_cons, if_pos rfl,
              get_eq_none_of_lt (fun e he => klt_trans h21 (ha.1 e he))] at this
            cases this
          · exact kle_antisymm (kle_of_not_lt h21) (kle_of_not_lt h12)
      subst hk
      have hv : v1 = v2 := by
        have := h k1
        rw [get_cons, if_pos rfl, get_cons, if_pos rfl] at this
        exact Option.some.inj this
      subst hv
      congr 1
      apply ih ha.2 hb.2
      intro k
      by_cases hk : k1 = k
      · subst hk
        rw [get_eq_none_of_lt ha.1, get_eq_none_of_lt hb.1]
      · have := h k
        rw [get_cons, if_neg hk, get_cons, if_neg hk] at this
        exact this

/-- two sorted stores with the same entries are equal -/
theorem ext_mem {a b : KV} (ha : Sorted a) (hb : Sorted b) (h : ∀ e, e ∈ a ↔ e ∈ b) : a = b := by
  apply ext_get ha hb
  intro k
  cases hka : a.get k with
  | some v =>
    have := (h (k, v)).mp ((mem_iff_get ha k v).mpr hka)
    exact ((mem_iff_get hb k v).mp this).symm
  | none =>
    cases hkb : b.get k with
    | none => rfl
    | some v =>
      have := (h (k, v)).mpr ((mem_iff_get hb k v).mpr hkb)
      rw [(mem_iff_get ha k v).mp this] at hka
      cases hka

end Sfw.Store
