/-
  Structure lemmas for the C06 refinement proof that do not mention the invariant:
  `Own b k`: key `k` belongs to the signature whose ID bytes are `b` (record key or one of its
  three index keys); different IDs own disjoint key sets, meta keys are owned by nobody.
-/
import SfwModel.Model.Store
import SfwModel.Lemmas.Lex
import SfwModel.Lemmas.KV
import SfwModel.Lemmas.Lex2
import SfwModel.Lemmas.Effect
namespace Sfw.Store

/-! ### ownership of keys -/

/-- `k` is the record key or an index key of the signature whose ID bytes are `b` -/
def Own (b k : Key) : Prop :=
  ∃ id : Str, bytes id = b ∧
    (k = sigKey id ∨ (∃ h : Str, colon ∉ bytes h ∧ k = topoKey h id) ∨
     (∃ h : Str, colon ∉ bytes h ∧ k = fuzzyKey h id) ∨ ∃ e : Rat, k = entrKey e id)

theorem own_sig (id : Str) : Own (bytes id) (sigKey id) := ⟨id, rfl, Or.inl rfl⟩
theorem own_topo {h : Str} (id : Str) (hc : colon ∉ bytes h) : Own (bytes id) (topoKey h id) :=
  ⟨id, rfl, Or.inr (Or.inl ⟨h, hc, rfl⟩)⟩
theorem own_fuzzy {h : Str} (id : Str) (hc : colon ∉ bytes h) : Own (bytes id) (fuzzyKey h id) :=
  ⟨id, rfl, Or.inr (Or.inr (Or.inl ⟨h, hc, rfl⟩))⟩
theorem own_entr (e : Rat) (id : Str) : Own (bytes id) (entrKey e id) :=
  ⟨id, rfl, Or.inr (Or.inr (Or.inr ⟨e, rfl⟩))⟩

/-! family disjointness (from the first byte) -/
theorem sig_ne_topo {a h i : Str} : sigKey a ≠ topoKey h i := fun e => by
  have := congrArg List.head? e; rw [head_sigKey, head_topoKey] at this; cases this
theorem sig_ne_fuzzy {a h i : Str} : sigKey a ≠ fuzzyKey h i := fun e => by
  have := congrArg List.head? e; rw [head_sigKey, head_fuzzyKey] at this; cases this
theorem sig_ne_entr {a i : Str} {x : Rat} : sigKey a ≠ entrKey x i := fun e => by
  have := congrArg List.head? e; rw [head_sigKey, head_entrKey] at this; cases this
theorem sig_ne_meta {a m : Str} : sigKey a ≠ metaKey m := fun e => by
  have := congrArg List.head? e; rw [head_sigKey, head_metaKey] at this; cases this
theorem topo_ne_fuzzy {h i h' i' : Str} : topoKey h i ≠ fuzzyKey h' i' := fun e => by
  have := congrArg List.head? e; rw [head_topoKey, head_fuzzyKey] at this; cases this
theorem topo_ne_entr {h i i' : Str} {x : Rat} : topoKey h i ≠ entrKey x i' := fun e => by
  have := congrArg List.head? e; rw [head_topoKey, head_entrKey] at this; cases this
theorem topo_ne_meta {h i m : Str} : topoKey h i ≠ metaKey m := fun e => by
  have := congrArg List.head? e; rw [head_topoKey, head_metaKey] at this; cases this
theorem fuzzy_ne_entr {h i i' : Str} {x : Rat} : fuzzyKey h i ≠ entrKey x i' := fun e => by
  have := congrArg List.head? e; rw [head_fuzzyKey, head_entrKey] at this; cases this
theorem fuzzy_ne_meta {h i m : Str} : fuzzyKey h i ≠ metaKey m := fun e => by
  have := congrArg List.head? e; rw [head_fuzzyKey, head_metaKey] at this; cases this
theorem entr_ne_meta {i m : Str} {x : Rat} : entrKey x i ≠ metaKey m := fun e => by
  have := congrArg List.head? e; rw [head_entrKey, head_metaKey] at this; cases this

theorem own_unique {b b' k : Key} (h : Own b k) (h' : Own b' k) : b = b' := by
  obtain ⟨i, rfl, h⟩ := h
  obtain ⟨i', rfl, h'⟩ := h'
  rcases h with rfl | ⟨x, hx, rfl⟩ | ⟨x, hx, rfl⟩ | ⟨x, rfl⟩ <;>
    rcases h' with e | ⟨y, hy, e⟩ | ⟨y, hy, e⟩ | ⟨y, e⟩
  · exact sigKey_inj e
  · exact absurd e sig_ne_topo
  · exact absurd e sig_ne_fuzzy
  · exact absurd e sig_ne_entr
  · exact absurd e.symm sig_ne_topo
  · exact (topoKey_inj hx hy e).2
  · exact absurd e topo_ne_fuzzy
  · exact absurd e topo_ne_entr
  · exact absurd e.symm sig_ne_fuzzy
  · exact absurd e.symm topo_ne_fuzzy
  · exact (fuzzyKey_inj hx hy e).2
  · exact absurd e fuzzy_ne_entr
  · exact absurd e.symm sig_ne_entr
  · exact absurd e.symm topo_ne_entr
  · exact absurd e.symm fuzzy_ne_entr
  · exact (entrKey_inj e).2

theorem not_own_meta (b : Key) (m : Str) : ¬ Own b (metaKey m) := by
  rintro ⟨i, -, h | ⟨x, -, h⟩ | ⟨x, -, h⟩ | ⟨x, h⟩⟩
  · exact sig_ne_meta h.symm
  · exact topo_ne_meta h.symm
  · exact fuzzy_ne_meta h.symm
  · exact entr_ne_meta h.symm

end Sfw.Store
