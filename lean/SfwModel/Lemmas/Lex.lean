/-
  Helper lemmas: lexicographic order on byte strings, prefix ranges (`incLast`), key shapes of the
  store model (injectivity, family disjointness), fixed-width entropy formatting.
  Not property theorems; used by Props/C06, C07, C18.
-/
import SfwModel.Model.Store
import Mathlib.Tactic.Linarith
import Mathlib.Tactic.SplitIfs
import Mathlib.Algebra.Order.Field.Rat
namespace Sfw.Store

/-! ### prefixes and `incLast` -/

/-- a proper extension of `p` is greater than `p`; equal-or-extension is `≥` -/
theorem le_of_prefix {p k : Key} (h : p <+: k) : p ≤ k := by
  obtain ⟨t, rfl⟩ := h
  induction p with
  | nil => exact List.nil_le _
  | cons a p ih =>
    rw [List.cons_append, List.cons_le_cons_iff]
    exact Or.inr ⟨rfl, ih⟩

/-- Go's incrementLastByte on a prefix whose last byte is not 0xff -/
theorem incLast_snoc (q : Key) {b : Nat} (hb : b < 255) : incLast (q ++ [b]) = some (q ++ [b + 1]) := by
  simp [incLast, incLastRev, hb]

/-- every key with prefix `p = q ++ [b]` lies in `[p, q ++ [b+1])`, and conversely.
    (For a prefix ending in 0xff Go's bound is NOT tight, which is why store.go also keeps the
    `bytes.HasPrefix` guard; every prefix the store uses ends in ':' or a digit.) -/
theorem prefix_iff_range_snoc (q : Key) {b : Nat} (k : Key) :
    (q ++ [b]) <+: k ↔ (q ++ [b] ≤ k ∧ k < q ++ [b + 1]) := by
  induction q generalizing k with
  | nil =>
    cases k with
    | nil => simp
    | cons c r =>
      simp only [List.nil_append, List.cons_prefix_cons, List.nil_prefix, and_true,
        List.cons_le_cons_iff, List.cons_lt_cons_iff, List.nil_le, List.not_lt_nil]
      simp only [and_false, or_false]
      constructor
      · intro h; omega
      · intro h; omega
  | cons a q ih =>
    cases k with
    | nil => simp
    | cons c r =>
      simp only [List.cons_append, List.cons_prefix_cons, List.cons_le_cons_iff,
        List.cons_lt_cons_iff, ih r]
      constructor
      · rintro ⟨rfl, h1, h2⟩
        exact ⟨Or.inr ⟨rfl, h1⟩, Or.inr ⟨rfl, h2⟩⟩
      · rintro ⟨h1 | ⟨rfl, h1⟩, h2 | ⟨h3, h2⟩⟩
        · omega
        · omega
        · omega
        · exact ⟨rfl, h1, h2⟩

theorem takeWhile_filter_self {α} (p : α → Bool) (l : List α) :
    (l.filter p).takeWhile p = l.filter p := by
  induction l with
  | nil => rfl
  | cons a l ih =>
    by_cases h : p a <;> simp [h, ih]

/-- `prefixIter` on a sorted store is the sub-list of entries whose key has the prefix -/
theorem prefixIter_eq_filter (kv : KV) (hs : kv.Pairwise (fun a b => a.1 < b.1)) (q : Key) {b : Nat}
    (hb : b < 255) : prefixIter kv (q ++ [b]) = kv.filter (fun e => (q ++ [b]).isPrefixOf e.1) := by
  have _ := hs  -- sortedness is not needed: the range filter already coincides with the prefix filter
  have hf : (fun e : Key × Val => decide (q ++ [b] ≤ e.1) && keyLt e.1 (q ++ [b + 1]))
      = (fun e => (q ++ [b]).isPrefixOf e.1) := by
    funext e
    rw [Bool.eq_iff_iff]
    simp only [Bool.and_eq_true, decide_eq_true_eq, keyLt, List.isPrefixOf_iff_prefix]
    exact (prefix_iff_range_snoc q e.1).symm
  simp only [prefixIter, incLast_snoc q hb, KV.iter, hf]
  exact takeWhile_filter_self _ _

/-! ### `bytes` -/

theorem bytes_append (a b : Str) : bytes (a ++ b) = bytes a ++ bytes b := by
  simp [bytes]

theorem bytes_nil : bytes [] = [] := rfl

/-! ### key shapes -/

theorem utf8Char_digitChar (d : Nat) : utf8Char (digitChar d) = [48 + d % 10] := by
  have h : d % 10 < 10 := Nat.mod_lt _ (by decide)
  unfold digitChar
  generalize d % 10 = m at h
  have : m = 0 ∨ m = 1 ∨ m = 2 ∨ m = 3 ∨ m = 4 ∨ m = 5 ∨ m = 6 ∨ m = 7 ∨ m = 8 ∨ m = 9 := by omega
  rcases this with rfl | rfl | rfl | rfl | rfl | rfl | rfl | rfl | rfl | rfl <;> rfl

theorem bytes_fmtE (e : Rat) : bytes (fmtE e) =
    let n := (roundHalfEven (e * 10000)).toNat
    [48 + (n / 1000000) % 10, 48 + (n / 100000) % 10, 48 + (n / 10000) % 10, 46,
     48 + (n / 1000) % 10, 48 + (n / 100) % 10, 48 + (n / 10) % 10, 48 + n % 10] := by
  have hdot : utf8Char '.' = [46] := rfl
  simp [bytes, fmtE, utf8Char_digitChar, hdot]

theorem fmtE_length (e : Rat) : (bytes (fmtE e)).length = 8 := by
  rw [bytes_fmtE]; rfl

theorem fmtE_nocolon (e : Rat) : colon ∉ bytes (fmtE e) := by
  rw [bytes_fmtE]
  simp only [colon, List.mem_cons, List.not_mem_nil, or_false]
  omega

theorem sigKey_inj {a b : Str} (h : sigKey a = sigKey b) : bytes a = bytes b :=
  List.append_cancel_left h

theorem sep_inj {c : Nat} : ∀ {a b x y : List Nat}, c ∉ a → c ∉ b →
    a ++ c :: x = b ++ c :: y → a = b ∧ x = y
  | [], [], _, _, _, _, h => by simpa using h
  | [], b0 :: b, _, _, _, hb, h => by
    simp only [List.nil_append, List.cons_append, List.cons.injEq] at h
    exact absurd (h.1 ▸ List.mem_cons_self) hb
  | a0 :: a, [], _, _, ha, _, h => by
    simp only [List.nil_append, List.cons_append, List.cons.injEq] at h
    exact absurd (h.1 ▸ List.mem_cons_self) ha
  | a0 :: a, b0 :: b, x, y, ha, hb, h => by
    simp only [List.cons_append, List.cons.injEq] at h
    have := sep_inj (fun m => ha (List.mem_cons_of_mem _ m)) (fun m => hb (List.mem_cons_of_mem _ m)) h.2
    exact ⟨by rw [h.1, this.1], this.2⟩

theorem topoKey_inj {h1 h2 i1 i2 : Str} (hc1 : colon ∉ bytes h1) (hc2 : colon ∉ bytes h2)
    (h : topoKey h1 i1 = topoKey h2 i2) : bytes h1 = bytes h2 ∧ bytes i1 = bytes i2 := by
  simp only [topoKey, List.append_assoc, List.singleton_append] at h
  exact sep_inj hc1 hc2 (List.append_cancel_left h)

theorem fuzzyKey_inj {h1 h2 i1 i2 : Str} (hc1 : colon ∉ bytes h1) (hc2 : colon ∉ bytes h2)
    (h : fuzzyKey h1 i1 = fuzzyKey h2 i2) : bytes h1 = bytes h2 ∧ bytes i1 = bytes i2 := by
  simp only [fuzzyKey, List.append_assoc, List.singleton_append] at h
  exact sep_inj hc1 hc2 (List.append_cancel_left h)

theorem entrKey_inj {e1 e2 : Rat} {i1 i2 : Str} (h : entrKey e1 i1 = entrKey e2 i2) :
    bytes (fmtE e1) = bytes (fmtE e2) ∧ bytes i1 = bytes i2 := by
  simp only [entrKey, List.append_assoc, List.singleton_append] at h
  exact sep_inj (fmtE_nocolon e1) (fmtE_nocolon e2) (List.append_cancel_left h)

theorem sepPrefix_iff {p a b x : List Nat} {c : Nat} (ha : c ∉ a) (hb : c ∉ b) :
    p ++ a ++ [c] <+: p ++ b ++ [c] ++ x ↔ a = b := by
  constructor
  · rintro ⟨t, ht⟩
    simp only [List.append_assoc, List.cons_append, List.nil_append] at ht
    exact (sep_inj ha hb (List.append_cancel_left ht)).1
  · rintro rfl
    exact List.prefix_append _ _

/-- a key with the topo prefix of hash `h` is exactly a topo key of that hash (for colon-free hashes) -/
theorem topoPrefix_iff {h h' id : Str} (hc : colon ∉ bytes h) (hc' : colon ∉ bytes h') :
    topoPrefix h <+: topoKey h' id ↔ bytes h = bytes h' :=
  sepPrefix_iff hc hc'

theorem fuzzyPrefix_iff {h h' id : Str} (hc : colon ∉ bytes h) (hc' : colon ∉ bytes h') :
    fuzzyPrefix h <+: fuzzyKey h' id ↔ bytes h = bytes h' :=
  sepPrefix_iff hc hc'

/-- the five key families start with different bytes, so keys of different families differ
    and no family prefix is a prefix of a key of another family -/
theorem head_sigKey (id : Str) : (sigKey id).head? = some 115 := rfl
theorem head_topoKey (h id : Str) : (topoKey h id).head? = some 116 := rfl
theorem head_fuzzyKey (h id : Str) : (fuzzyKey h id).head? = some 102 := rfl
theorem head_entrKey (e : Rat) (id : Str) : (entrKey e id).head? = some 101 := rfl
theorem head_metaKey (m : Str) : (metaKey m).head? = some 109 := rfl

theorem pSig_prefix_iff (k : Key) : pSig <+: k ↔ ∃ rest, k = pSig ++ rest := by
  constructor
  · rintro ⟨t, rfl⟩; exact ⟨t, rfl⟩
  · rintro ⟨t, rfl⟩; exact ⟨t, rfl⟩

/-! ### entropy formatting is monotone on [0, 999] -/

theorem roundHalfEven_bounds (q : Rat) :
    q.floor ≤ roundHalfEven q ∧ roundHalfEven q ≤ q.floor + 1 := by
  unfold roundHalfEven
  simp only []
  split_ifs <;> omega

/-- round-half-even is monotone -/
theorem roundHalfEven_mono {a b : Rat} (h : a ≤ b) : roundHalfEven a ≤ roundHalfEven b := by
  have hf := Rat.floor_monotone h
  rcases Int.lt_or_eq_of_le hf with hlt | heq
  · have h1 := (roundHalfEven_bounds a).2
    have h2 := (roundHalfEven_bounds b).1
    omega
  · unfold roundHalfEven
    simp only [heq]
    split_ifs <;> first | omega | (exfalso; linarith)

theorem digits_mono_aux {a0 a1 a2 a3 a4 a5 a6 b0 b1 b2 b3 b4 b5 b6 : Nat}
    (ha1 : a1 = a0 / 10) (ha2 : a2 = a1 / 10) (ha3 : a3 = a2 / 10) (ha4 : a4 = a3 / 10)
    (ha5 : a5 = a4 / 10) (ha6 : a6 = a5 / 10)
    (hb1 : b1 = b0 / 10) (hb2 : b2 = b1 / 10) (hb3 : b3 = b2 / 10) (hb4 : b4 = b3 / 10)
    (hb5 : b5 = b4 / 10) (hb6 : b6 = b5 / 10)
    (h0 : a0 ≤ b0) (h1 : a1 ≤ b1) (h2 : a2 ≤ b2) (h3 : a3 ≤ b3) (h4 : a4 ≤ b4) (h5 : a5 ≤ b5)
    (h6 : a6 ≤ b6) (hlt : b6 < 10) :
    [48 + a6 % 10, 48 + a5 % 10, 48 + a4 % 10, 46, 48 + a3 % 10, 48 + a2 % 10, 48 + a1 % 10,
      48 + a0 % 10] ≤
    [48 + b6 % 10, 48 + b5 % 10, 48 + b4 % 10, 46, 48 + b3 % 10, 48 + b2 % 10, 48 + b1 % 10,
      48 + b0 % 10] := by
  simp only [List.cons_le_cons_iff, List.nil_le, and_true, Nat.lt_irrefl, false_or, true_and]
  omega

theorem digits_mono {m n : Nat} (hmn : m ≤ n) (hn : n < 10000000) :
    [48 + (m / 1000000) % 10, 48 + (m / 100000) % 10, 48 + (m / 10000) % 10, 46,
     48 + (m / 1000) % 10, 48 + (m / 100) % 10, 48 + (m / 10) % 10, 48 + m % 10] ≤
    [48 + (n / 1000000) % 10, 48 + (n / 100000) % 10, 48 + (n / 10000) % 10, 46,
     48 + (n / 1000) % 10, 48 + (n / 100) % 10, 48 + (n / 10) % 10, 48 + n % 10] := by
  apply digits_mono_aux (a0 := m) (b0 := n) <;> omega

/-- fixed-width decimal rendering preserves order (byte-lexicographic = numeric) -/
theorem fmtE_mono {a b : Rat} (ha : 0 ≤ a) (hab : a ≤ b) (hb : b ≤ 999) :
    bytes (fmtE a) ≤ bytes (fmtE b) := by
  have _ := ha
  rw [bytes_fmtE, bytes_fmtE]
  have hm : roundHalfEven (a * 10000) ≤ roundHalfEven (b * 10000) :=
    roundHalfEven_mono (by linarith)
  have hfl : (b * 10000).floor ≤ 9990000 := by
    have h1 := Rat.floor_le (b * 10000)
    have h2 : ((b * 10000).floor : ℚ) ≤ 9990000 := by linarith
    exact_mod_cast h2
  have hub := (roundHalfEven_bounds (b * 10000)).2
  exact digits_mono (Int.toNat_le_toNat hm) (by omega)

end Sfw.Store
