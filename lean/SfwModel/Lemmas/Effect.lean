/-
  `effect`: what a batch does to one key (the last touching operation wins), and
  `get` of `applyBatch` computed through it.  Depends only on the model and Lemmas/KV.lean
  (deliberately NOT on Lemmas/Lex.lean, so that `≤` on keys is the core instance used by the model).
-/
import SfwModel.Model.Store
import SfwModel.Lemmas.KV
namespace Sfw.Store

/-! ### effect of a batch on one key -/

/-- what one operation does to key `k`: `none` = untouched, `some r` = afterwards `get k = r` -/
def opEffect (op : BOp) (k : Key) : Option (Option Val) :=
  match op with
  | .set k' v => if k = k' then some (some v) else none
  | .del k' => if k = k' then some none else none
  | .delRange lo hi => if lo ≤ k ∧ k < hi then some none else none

/-- the last touching operation wins -/
def effect : List BOp → Key → Option (Option Val)
  | [], _ => none
  | op :: rest, k => match effect rest k with
    | some r => some r
    | none => opEffect op k

theorem get_applyOp {kv : KV} (hs : Sorted kv) (op : BOp) (k : Key) :
    (applyOp kv op).get k = match opEffect op k with
      | some r => r
      | none => kv.get k := by
  cases op with
  | set k' v =>
    simp only [applyOp, opEffect]
    rw [get_set kv hs]
    by_cases h : k = k' <;> simp [h]
  | del k' =>
    simp only [applyOp, opEffect]
    rw [get_del]
    by_cases h : k = k' <;> simp [h]
  | delRange lo hi =>
    simp only [applyOp, opEffect]
    refine (get_delRange kv lo hi k).trans ?_
    by_cases h : lo ≤ k ∧ k < hi
    · rw [if_pos h, if_pos h]
    · rw [if_neg h, if_neg h]

theorem applyBatch_cons (kv : KV) (op : BOp) (b : List BOp) :
    applyBatch kv (op :: b) = applyBatch (applyOp kv op) b := rfl

theorem applyBatch_nil (kv : KV) : applyBatch kv [] = kv := rfl

theorem applyBatch_append (kv : KV) (a b : List BOp) :
    applyBatch kv (a ++ b) = applyBatch (applyBatch kv a) b := by
  simp [applyBatch, List.foldl_append]

theorem get_applyBatch {kv : KV} (hs : Sorted kv) (b : List BOp) (k : Key) :
    (applyBatch kv b).get k = match effect b k with
      | some r => r
      | none => kv.get k := by
  induction b generalizing kv with
  | nil => rfl
  | cons op rest ih =>
    rw [applyBatch_cons, ih (sorted_applyOp hs op), effect]
    cases h : effect rest k with
    | some r => rfl
    | none => exact get_applyOp hs op k

theorem effect_append (a b : List BOp) (k : Key) :
    effect (a ++ b) k = match effect b k with
      | some r => some r
      | none => effect a k := by
  induction a with
  | nil => simp only [List.nil_append, effect]; cases effect b k <;> rfl
  | cons op rest ih =>
    rw [List.cons_append, effect, ih]
    cases h : effect b k with
    | some r => rfl
    | none => simp only [effect]

theorem effect_eq_none {b : List BOp} {k : Key} (h : ∀ op ∈ b, opEffect op k = none) :
    effect b k = none := by
  induction b with
  | nil => rfl
  | cons op rest ih =>
    rw [effect, ih (fun o ho => h o (List.mem_cons_of_mem _ ho))]
    exact h op List.mem_cons_self

theorem effect_singleton (op : BOp) (k : Key) : effect [op] k = opEffect op k := rfl

theorem get_applyBatch_untouched {kv : KV} (hs : Sorted kv) {b : List BOp} {k : Key}
    (h : ∀ op ∈ b, opEffect op k = none) : (applyBatch kv b).get k = kv.get k := by
  rw [get_applyBatch hs, effect_eq_none h]

end Sfw.Store
