/-
  Axiom audit: for every theorem of the library whose last name component starts with
  `C<dd>_` (the property theorems in Props/), print the axioms it depends on.
  Run with `lake env lean Audit.lean`; the check driver parses the AUDIT lines and accepts
  only propext, Classical.choice, Quot.sound.
-/
import Lean
import SfwModel
open Lean Elab Command

def isPropTheoremName (s : String) : Bool :=
  match s.toList with
  | 'C' :: a :: b :: '_' :: _ => a.isDigit && b.isDigit
  | _ => false

elab "#audit_all" : command => do
  let env ← getEnv
  let names := env.constants.fold (init := #[]) fun acc n ci =>
    match n, ci with
    | .str _ s, .thmInfo _ => if isPropTheoremName s then acc.push n else acc
    | _, _ => acc
  let sorted := names.qsort (fun a b => a.toString < b.toString)
  for n in sorted do
    let axs ← liftCoreM (collectAxioms n)
    let axsS := axs.qsort (fun a b => a.toString < b.toString) |>.toList.map toString
    IO.println s!"AUDIT {n} {String.intercalate "," axsS}"

#audit_all
