-- Root of the SfwModel library.
import SfwModel.Model.Util
import SfwModel.Model.Env
import SfwModel.Model.Match
import SfwModel.Model.Sha256
import SfwModel.Model.Store
import SfwModel.Model.PathGuard
import SfwModel.Model.Sandbox
import SfwModel.Model.Json
import SfwModel.Model.Audit
import SfwModel.Model.Migrate
import SfwModel.Props.C05
import SfwModel.Props.C08
import SfwModel.Props.C15
import SfwModel.Props.C19
import SfwModel.Props.C20
import SfwModel.Props.C14
import SfwModel.Props.C06
