-- Root of the SfwModel library.
import SfwModel.Model.Util
import SfwModel.Model.Env
import SfwModel.Props.C15
