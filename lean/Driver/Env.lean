import SfwModel.Model.Env
open Sfw Sfw.Env
namespace Driver

/-- line: `env <TAB> hex,hex,...` → `hex,hex,...` of the hardened environment -/
def envStep (fs : List String) : String :=
  match fs with
  | ["env", l] =>
    match parseHexList l with
    | some es => showHexList ((hardened goUpper (es.map String.toList)).map String.ofList)
    | none => "bad-op"
  | _ => "bad-op"

end Driver
