import Driver.Codec
import SfwModel.Model.Walk
open Sfw Sfw.Walk
namespace Driver

/-- tokens: `f:<hex>` file, `d:<hex>` opens a directory, `]` closes it -/
def parseForest : Nat → List String → Forest × List String
  | 0, toks => (.nil, toks)
  | _ + 1, [] => (.nil, [])
  | fuel + 1, tok :: rest =>
    if tok == "]" then (.nil, rest)
    else if tok.startsWith "f:" then
      let name := (decStr (String.ofList (tok.toList.drop 2))).getD []
      let (r, rest') := parseForest fuel rest
      (.cons (.file name) r, rest')
    else
      let name := (decStr (String.ofList (tok.toList.drop 2))).getD []
      let (kids, rest1) := parseForest fuel rest
      let (r, rest2) := parseForest fuel rest1
      (.cons (.dir name kids) r, rest2)

def joinPath (p : List Name) : String := String.intercalate "/" (p.map String.ofList)

/-- `collect <hex target> <tokens separated by spaces>` → hex paths, comma separated
    `slots <strict 0|1> <outcomes: f|e|p separated by commas>` → failing?;slot kinds -/
def walkStep (fs : List String) : String :=
  match fs with
  | ["collect", target, toks] =>
    match decStr target with
    | none => "bad-op"
    | some t =>
      let tl := if toks == "-" || toks == "" then [] else toks.splitOn " "
      let (forest, _) := parseForest (tl.length + 1) tl
      String.intercalate "," ((collect t forest).map (fun p => hexEncode (joinPath p)))
  | ["slots", strict, outs] =>
    let os := if outs == "-" || outs == "" then [] else outs.splitOn ","
    let files : List (List Name) := (List.range os.length).map (fun i => [(toString i).toList])
    let outcome : List Name → Outcome := fun f =>
      match f with
      | [n] =>
        match (String.ofList n).toNat? with
        | some i =>
          match os[i]? with
          | some "f" => .functions 1
          | some "e" => .error ['x']
          | _ => .panicked
        | none => .panicked
      | _ => .panicked
    let (slots, hasErr) := processAll files outcome
    boolStr (checkFails files (strict == "1") outcome) ++ ";" ++ boolStr hasErr ++ ";" ++
      String.intercalate "," (slots.map (fun s => (if s.file.isSome then "n" else "-") ++ (if s.err then "e" else "")))
  | _ => "bad-op"

end Driver
