import Driver.Codec
import SfwModel.Model.Migrate
open Sfw Sfw.Store Sfw.Migrate
namespace Driver

def dummySig (i : Nat) : Sig :=
  { id := (toString i).toList, name := [], severity := [], topoHash := ['h'], fuzzyHash := [], entropy := 0, tol := 0,
    nodeCount := 0, loopDepth := 0, required := [], patterns := [] }

def decToks (s : String) : Option (List Tok) :=
  let rec go : List String → Nat → List Tok → Option (List Tok)
    | [], _, acc => some acc.reverse
    | t :: rest, i, acc =>
      if t == "{" then go rest i (.objOpen :: acc)
      else if t == "}" then go rest i (.objClose :: acc)
      else if t == "[" then go rest i (.arrOpen :: acc)
      else if t == "]" then go rest i (.arrClose :: acc)
      else if t == "o" then go rest i (.other :: acc)
      else if t == "s" then go rest (i + 1) (.sig (dummySig i) :: acc)
      else if t.startsWith "k:" then
        match hexDecode (String.ofList (t.toList.drop 2)) with
        | some k => go rest i (.key k.toList :: acc)
        | none => none
      else none
  if s == "" then some [] else go (s.splitOn ",") 0 []

def decFsOps (s : String) : Option (List FsOp) :=
  if s == "" then some [] else
  (s.splitOn ",").mapM (fun (e : String) =>
    match e.splitOn ":" with
    | ["c", f] => (hexDecode f).map (fun x => FsOp.create x.toList)
    | ["ow", f] => (hexDecode f).map (fun x => FsOp.openWrite x.toList)
    | ["w", f] => (hexDecode f).map (fun x => FsOp.write x.toList)
    | ["s", f] => (hexDecode f).map (fun x => FsOp.fsync x.toList)
    | ["cl", f] => (hexDecode f).map (fun x => FsOp.close x.toList)
    | ["rm", f] => (hexDecode f).map (fun x => FsOp.remove x.toList)
    | ["r", a, b] => do let a ← hexDecode a; let b ← hexDecode b; pure (FsOp.rename a.toList b.toList)
    | _ => none)

def migrateStep (d : JsonDb) (fs : List String) : JsonDb × String :=
  match fs with
  | ["toks", spec, part] =>
    match decToks spec with
    | some ts =>
      (d, match migrateToks { toks := ts, partialTail := part == "1" } with
          | .ok l => s!"ok:{l.length}"
          | .error l => s!"error:{l.length}")
    | none => (d, "bad-op")
  | ["jreset"] => (JsonDb.empty, "ok")
  | ["jadd", s] =>
    match decSig s with
    | some s => (d.add s, "ok")
    | none => (d, "bad-op")
  | ["jaddmany", l] =>
    match decSigs l with
    | some l => (d.addMany l, "ok")
    | none => (d, "bad-op")
  | ["jget", id] =>
    match decStr id with
    | some id => (d, match d.get id with | some s => encSig s | none => "none")
    | none => (d, "bad-op")
  | ["proto", target, ops] =>
    match hexDecode target, decFsOps ops with
    | some t, some ops => (d, if followsProtocol t.toList ops then "ok" else "violation")
    | _, _ => (d, "bad-op")
  | _ => (d, "bad-op")

end Driver
