import Driver.Codec
open Sfw
namespace Driver

def matchStep (fs : List String) : String :=
  match fs with
  | ["match", t, s, tol] =>
    match decTopo t, decSig s, parseRat tol with
    | some t, some s, some tol => encResult (matchSignature (topoHashOf t) t s tol)
    | _, _, _ => "bad-op"
  | ["hash", t] =>
    match decTopo t with
    | some t => String.intercalate "\t" [encStr (topoHashInput t), encStr (topoHashOf t), encStr (fuzzyHash t)]
    | none => "bad-op"
  | ["tfp", t] =>
    match decTopo t with
    | some t => encStr (topoFingerprint t)
    | none => "bad-op"
  | ["index", t] =>
    match decTopo t with
    | some t => encSig (indexFunction (topoHashOf t) t [] [] [])
    | none => "bad-op"
  | ["sim", a, b] =>
    match decTopo a, decTopo b with
    | some a, some b => showRat (topoSimilarity a b)
    | _, _ => "bad-op"
  | ["scanjson", t, thr, tol, sigs] =>
    match decTopo t, parseRat thr, parseRat tol, decSigs sigs with
    | some t, some thr, some tol, some sigs => encAlerts (jsonScanFull (topoHashOf t) t sigs thr tol)
    | _, _, _, _ => "bad-op"
  | ["exactjson", t, sigs] =>
    match decTopo t, decSigs sigs with
    | some t, some sigs =>
      match jsonScanExact (topoHashOf t) t sigs with
      | some r => encAlerts [r]
      | none => "none"
    | _, _ => "bad-op"
  | _ => "bad-op"

end Driver
