import SfwModel.Model.PathGuard
open Sfw Sfw.PathGuard
namespace Driver

def compsOfAbs (s : String) : Path := (splitSlash s.toList).filter (fun c => c ≠ [])

def decEntry (e : String) : Option (Path × Node) :=
  match e.splitOn ":" with
  | [p, kind, to] => do
    let p ← hexDecode p
    let to ← hexDecode to
    let node ← match kind with
      | "dir" => some Node.dir
      | "file" => some Node.file
      | "link" => some (Node.link to.toList)
      | _ => none
    pure (compsOfAbs p, node)
  | _ => none

def showDecision : Decision → String
  | .refused => "refused"
  | .pass => "pass"
  | .error => "error"

/-- `guard <cwd> <path> <entries>` -/
def pathGuardStep (fs : List String) : String :=
  match fs with
  | ["guard", cwd, p, ents] =>
    match hexDecode cwd, hexDecode p, (if ents == "" then some [] else (ents.splitOn ",").mapM decEntry) with
    | some cwd, some p, some ents => showDecision (guard ents (compsOfAbs cwd) p.toList)
    | _, _, _ => "bad-op"
  | _ => "bad-op"

end Driver
