/-
  Line-protocol driver for the SSA canonicaliser model (suite `canon`).
  Accumulation lines (`fn`, `param`, `fv`, `res`, `blk`, `ins`, `end`) build the pending function
  and answer `ok`; `canon<TAB>default|keepall` answers the hex of the model's canonical IR of the
  last completed function.  The field layout is documented in go-src/ssa_export.go.
-/
import SfwModel.Model.Canon.SemIso
import SfwModel.Model.Canon.Verdict
open Sfw Sfw.Canon
namespace Driver

structure PendingFn where
  name     : String
  nBlocks  : Nat
  recover  : Option Nat
  params   : Array String := #[]
  freeVars : Array String := #[]
  results  : Array String := #[]
  blks     : Array (Nat × List Nat × List Nat) := #[]
  instrs   : Array Instr := #[]

structure CanonState where
  pending : Option PendingFn := none
  last    : Option Func := none
  /-- the function kept by `keep` (the OLD side of an `iso` query) -/
  kept    : Option Func := none

def CanonState.init : CanonState := {}

def parseCsvNat (s : String) : Option (List Nat) :=
  if s == "-" then some [] else (s.splitOn ",").mapM String.toNat?

def parseConstKind : String → Option ConstKind
  | "nil" => some .nil | "str" => some .str | "int" => some .int | "float" => some .float
  | "complex" => some .complex | "bool" => some .bool | "other" => some .other
  | _ => none

def hexBytes (s : String) : Option (List Nat) :=
  if s == "-" then some [] else hexDecodeBytes s

/-- one operand field; `site` = (instruction id, operand position) -/
def parseOperand (site : Nat × Nat) (s : String) : Option Operand :=
  if s == "n" then some { val := none, tf := 0 } else
  match s.splitOn "/" with
  | [body, tfS] => do
    let tf ← tfS.toNat?
    let v ← (match body.splitOn ":" with
      | ["v", id] => do let id ← id.toNat?; pure (Val.instr id)
      | ["p", i] => do let i ← i.toNat?; pure (Val.param i)
      | ["f", i] => do let i ← i.toNat?; pure (Val.freeVar i)
      | "c" :: kind :: text :: typ :: _small :: fits :: iv :: ptr => do
        let kind ← parseConstKind kind
        let bytes ← hexBytes text
        let typ ← hexDecode typ
        let iv ← iv.toInt?
        let isStr := kind == ConstKind.str
        let text ← (if isStr then some "" else String.fromUTF8? (bytesToByteArray bytes))
        -- optional 8th field: an id of the *ssa.Const pointer
        let cid ← (match ptr with
          | [] => some (ConstId.site site.1 site.2)
          | [p] => p.toNat?.map ConstId.ptr
          | _ => none)
        pure (Val.const { kind := kind, text := text, bytes := if isStr then bytes else [],
                          typ := typ, fits64 := fits == "1", i64 := iv, cid := cid })
      | ["g", pkg, name, typ] => do
        let pkg ← hexDecode pkg; let name ← hexDecode name; let typ ← hexDecode typ
        pure (Val.global pkg name typ)
      | ["b", name] => do let name ← hexDecode name; pure (Val.builtin name)
      | ["fn", name, sig, rel] => do
        let name ← hexDecode name; let sig ← hexDecode sig
        let rel ← if rel == "self" then some FuncRel.self
                  else if rel == "ext" then some FuncRel.external
                  else if rel.startsWith "local." then (hexDecode (String.ofList (rel.toList.drop 6))).map FuncRel.localTo
                  else none
        pure (Val.func name sig rel)
      | _ => none)
    pure { val := some v, tf := tf }
  | _ => none

def parseRefs (s : String) : Option (List (Nat × Kind)) :=
  if s == "-" then some [] else
  (s.splitOn ",").mapM (fun e =>
    match e.splitOn ":" with
    | [id, k] => do let id ← id.toNat?; pure (id, Kind.ofString k)
    | _ => none)

def parseOperands (id : Nat) : Nat → List String → Option (List Operand)
  | _, [] => some []
  | k, s :: rest => do
    let o ← parseOperand (id, k) s
    let os ← parseOperands id (k + 1) rest
    pure (o :: os)

def parseInstr : List String → Option Instr
  | blk :: id :: kind :: typ :: void :: tf :: op :: b1 :: b2 :: n1 :: s1 :: s2 :: refs :: ops => do
    let blk ← blk.toNat?; let id ← id.toNat?
    let typ ← hexDecode typ
    let tf ← tf.toNat?
    let op ← hexDecode op
    let b2 ← b2.toNat?
    let n1 ← n1.toInt?
    let s1 ← hexDecode s1; let s2 ← hexDecode s2
    let refs ← parseRefs refs
    let ops ← parseOperands id 0 ops
    pure { blk := blk, id := id, kind := Kind.ofString kind, typ := typ, void := void == "1",
           tf := tf, op := op, b1 := b1 == "1", b2 := b2, n1 := n1, s1 := s1, s2 := s2,
           refs := refs, ops := ops }
  | _ => none

/-- `end`: assemble the function; ids must be consecutive and blocks numbered 0 … n-1 -/
def finishFn (p : PendingFn) : Option Func :=
  let idsOk := (List.range p.instrs.size).all (fun k =>
    match p.instrs[k]? with
    | some i => i.id == k && i.blk < p.nBlocks
    | none => false)
  let blksOk := p.blks.size == p.nBlocks && (List.range p.blks.size).all (fun k =>
    match p.blks[k]? with
    | some b => b.1 == k && b.2.1.all (· < p.nBlocks) && b.2.2.all (· < p.nBlocks)
    | none => false)
  if !(idsOk && blksOk) then none else
  let blocks := p.blks.map (fun b =>
    ({ idx := b.1, succs := b.2.1, preds := b.2.2,
       instrs := p.instrs.toList.filter (fun i => i.blk == b.1) } : Block))
  some { name := p.name, recover := p.recover, params := p.params.toList,
         freeVars := p.freeVars.toList, results := p.results.toList,
         blocks := blocks, instrs := p.instrs }

/-- an argument of `run`: `i<int>`, `s<hex|->`, `b0|b1`, `l<csv ints|->` -/
def parseArg (s : String) : Option Sem.Value :=
  match s.toList with
  | 'i' :: rest => (String.ofList rest).toInt?.map Sem.Value.int
  | 's' :: rest => (hexBytes (String.ofList rest)).map Sem.Value.str
  | ['b', '0'] => some (.bool false)
  | ['b', '1'] => some (.bool true)
  | 'l' :: rest =>
    let body := String.ofList rest
    if body == "-" then some (.slice []) else ((body.splitOn ",").mapM String.toInt?).map Sem.Value.slice
  | _ => none

def showSemValue : Sem.Value → String
  | .int v => "i" ++ toString v
  | .str bs => "s" ++ (if bs.isEmpty then "-" else hexEncodeBytes bs)
  | .bool b => if b then "b1" else "b0"
  | .flt _ => "f?"
  | .slice xs => "l" ++ (if xs.isEmpty then "-" else String.intercalate "," (xs.map toString))
  | .elem _ k => "e" ++ toString k

def showSemOutcome : Sem.Outcome → String
  | .ret vs => "ret:" ++ String.intercalate "," (vs.map showSemValue)
  | .panic => "panic"
  | .stuck => "stuck"
  | .fuelOut => "fuel"

/-- the instruction kinds (and operators) of a function the interpreter has no rule for -/
def unsupportedKinds (f : Func) : List String :=
  (f.instrs.toList.filterMap (fun i =>
    match i.kind with
    | .BinOp | .Phi | .If | .Jump | .Return | .Panic | .DebugRef | .Convert | .ChangeType
    | .IndexAddr | .Lookup | .Index => none
    | .UnOp => if i.op == "-" || i.op == "^" || i.op == "!" || i.op == "*" then none else some ("UnOp" ++ i.op)
    | .Call =>
      (match i.opVal 0 with
       | some (.builtin name) => if name == "len" || name == "cap" then none else some ("Call:" ++ name)
       | _ => some "Call")
    | k => some k.name)).eraseDups

/-- the same function with its blocks renumbered by `perm` (old index ↦ new index, a permutation that
    keeps block 0) and its instructions renumbered consecutively in the new block order: what go/ssa
    would have built had the source listed its branches in another order.  Nothing the canonical
    text shows may depend on these numbers. -/
def renumber (f : Func) (perm : Array Nat) : Func :=
  let n := f.blocks.size
  let pb := fun (b : Nat) => perm.getD b b
  -- inverse: new index ↦ old index
  let inv : Array Nat := (List.range n).foldl (fun a old => a.setIfInBounds (pb old) old) (Array.replicate n 0)
  -- new instruction ids: walk the blocks in NEW order
  let order : List Instr := (List.range n).flatMap (fun nb => f.blockInstrs (inv.getD nb nb))
  let idMap : Array Nat := (order.zipIdx).foldl (fun a e => a.setIfInBounds e.1.id e.2) (Array.replicate f.instrs.size 0)
  let pi := fun (id : Nat) => idMap.getD id id
  let mapVal : Val → Val
    | .instr id => .instr (pi id)
    | .const c => .const { c with cid := match c.cid with | .site i p => .site (pi i) p | x => x }
    | v => v
  let mapInstr := fun (i : Instr) =>
    { i with blk := pb i.blk, id := pi i.id,
             refs := i.refs.map (fun r => (pi r.1, r.2)),
             ops := i.ops.map (fun o => { o with val := o.val.map mapVal }) }
  let newInstrs : Array Instr := (order.map mapInstr).toArray
  let blocks : Array Block := (Array.range n).map (fun nb =>
    match f.blocks[inv.getD nb nb]? with
    | some bl => { idx := nb, succs := bl.succs.map pb, preds := bl.preds.map pb, instrs := bl.instrs.map mapInstr }
    | none => { idx := nb, succs := [], preds := [], instrs := [] })
  { f with recover := f.recover.map pb, blocks := blocks, instrs := newInstrs }

/-- reverse the order of all blocks but the entry -/
def reversePerm (n : Nat) : Array Nat :=
  (Array.range n).map (fun b => if b == 0 then 0 else n - b)

/-- rotate the non-entry blocks by one -/
def rotatePerm (n : Nat) : Array Nat :=
  (Array.range n).map (fun b => if b == 0 || n ≤ 2 then b else 1 + (b % (n - 1)))

def canonStep (st : CanonState) (fs : List String) : CanonState × String :=
  let bad := (st, "bad-op")
  let upd := fun (g : PendingFn → Option PendingFn) =>
    match st.pending with
    | none => bad
    | some p =>
      match g p with
      | some p' => ({ st with pending := some p' }, "ok")
      | none => bad
  match fs with
  | ["fn", name, nb, rec] =>
    match hexDecode name, nb.toNat?, rec.toInt? with
    | some name, some nb, some rec =>
      ({ st with pending := some { name := name, nBlocks := nb,
                                   recover := if rec < 0 then none else some rec.toNat } }, "ok")
    | _, _, _ => bad
  | ["param", i, t] =>
    upd (fun p => do
      let i ← i.toNat?; let t ← hexDecode t
      if i != p.params.size then none else pure { p with params := p.params.push t })
  | ["fv", i, t] =>
    upd (fun p => do
      let i ← i.toNat?; let t ← hexDecode t
      if i != p.freeVars.size then none else pure { p with freeVars := p.freeVars.push t })
  | ["res", i, t] =>
    upd (fun p => do
      let i ← i.toNat?; let t ← hexDecode t
      if i != p.results.size then none else pure { p with results := p.results.push t })
  | ["blk", idx, succs, preds] =>
    upd (fun p => do
      let idx ← idx.toNat?; let succs ← parseCsvNat succs; let preds ← parseCsvNat preds
      pure { p with blks := p.blks.push (idx, succs, preds) })
  | "ins" :: rest =>
    upd (fun p => do
      let i ← parseInstr rest
      pure { p with instrs := p.instrs.push i })
  | ["end"] =>
    match st.pending with
    | none => bad
    | some p =>
      match finishFn p with
      | some f => ({ st with pending := none, last := some f }, "ok")
      | none => bad
  | ["keep"] =>
    match st.last with
    | none => bad
    | some f => ({ st with kept := some f }, "ok")
  | ["iso", instrMap, blockMap] =>
    -- kept = old function, last = new function; maps as csv of new ids / block indices
    match st.kept, st.last, parseCsvNat instrMap, parseCsvNat blockMap with
    | some f, some g, some im, some bm =>
      let m : Sem.Matching := { instr := im.toArray, block := bm.toArray }
      -- isoCheck (hypothesis of C04_sem_iso_same_behaviour), zipperAccepts (hypothesis of
      -- C04_zipper_verdict_sound) and, to name what failed, its go/ssa parts
      let b := fun (x : Bool) => if x then "1" else "0"
      (st, b (Sem.isoCheck f g m) ++ " " ++ b (Sem.Verdict.zipperAccepts f g m) ++ " " ++
        b (Sem.Verdict.shapeCheck f && Sem.Verdict.shapeCheck g) ++ " " ++
        b (Sem.Verdict.cfgCheck f && Sem.Verdict.cfgCheck g))
    | _, _, _, _ => bad
  | ["wf"] =>
    match st.last with
    | none => bad
    | some f => (st, if Sem.wfCheck f then "1" else "0")
  | ["unsupported"] =>
    match st.last with
    | none => bad
    | some f => (st, "u:" ++ String.intercalate "," (unsupportedKinds f))
  | "run" :: fuel :: args =>
    match st.last, fuel.toNat?, args.mapM parseArg with
    | some f, some fuel, some args =>
      let o := Sem.run f args fuel
      let v1 := Sem.run (Sem.virtualView f (fun _ => true)) args fuel
      let v2 := Sem.run (Sem.virtualView f (fun k => k % 2 == 0)) args fuel
      (st, showSemOutcome o ++ "|" ++ showSemOutcome v1 ++ "|" ++ showSemOutcome v2)
    | _, _, _ => bad
  | ["viewtext", pol] =>
    match st.last with
    | none => bad
    | some f =>
      let policy := if pol == "keepall" then keepAllLiteralsPolicy else defaultLiteralPolicy
      (st, hexEncode (canonicalIR policy f) ++ "|" ++ hexEncode (canonicalIR policy (Sem.virtualView f (fun _ => true))))
  | ["renumcanon", pol] =>
    match st.last with
    | none => bad
    | some f =>
      let policy := if pol == "keepall" then keepAllLiteralsPolicy else defaultLiteralPolicy
      let base := canonicalIR policy f
      let n := f.blocks.size
      let s1 := canonicalIR policy (renumber f (reversePerm n)) == base
      let s2 := canonicalIR policy (renumber f (rotatePerm n)) == base
      (st, (if s1 then "same" else "differs") ++ "|" ++ (if s2 then "same" else "differs"))
  | ["renumtext", pol] =>
    match st.last with
    | none => bad
    | some f =>
      let policy := if pol == "keepall" then keepAllLiteralsPolicy else defaultLiteralPolicy
      (st, hexEncode (canonicalIR policy f) ++ "|" ++ hexEncode (canonicalIR policy (renumber f (reversePerm f.blocks.size))))
  | ["viewcanon", pol] =>
    match st.last with
    | none => bad
    | some f =>
      let policy := if pol == "keepall" then keepAllLiteralsPolicy else defaultLiteralPolicy
      let base := canonicalIR policy f
      let same := fun (e : Sem.Exchange) => canonicalIR policy (Sem.virtualView f e) == base
      let nSwapped := (computeVirtualControlFlow f).swappedBlocks.length
      (st, (if same (fun _ => true) then "same" else "differs") ++ "|" ++
           (if same (fun _ => false) then "same" else "differs") ++ "|" ++ toString nSwapped)
  | ["canon", pol] =>
    match st.last with
    | none => bad
    | some f =>
      if pol == "default" then (st, hexEncode (canonicalIR defaultLiteralPolicy f))
      else if pol == "keepall" then (st, hexEncode (canonicalIR keepAllLiteralsPolicy f))
      else bad
  | _ => bad

end Driver
