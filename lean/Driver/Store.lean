import Driver.Codec
import SfwModel.Model.Store
open Sfw Sfw.Store
namespace Driver

def showOutcome : Outcome → String
  | .ok => "ok"
  | .err k => "err:" ++ k

def encIds (l : List Sig) : String := String.intercalate "," (l.map (fun s => encStr s.id))

def encSigOpt : Option Sig → String
  | some s => encSig s
  | none => "none"

def keyToHex (k : Key) : String := hexEncodeBytes k

/-- every lookup is printed next to the brute force over `abs kv`; a mismatch is flagged in the
    output so the harness sees it (equal by the C06 theorems — asserting it at run time guards
    against a driver bug) -/
def withBrute (model brute : String) : String :=
  if model == brute then model else s!"MODEL-BRUTE-MISMATCH model={model} brute={brute}"

def storeStep (kv : KV) (fs : List String) : KV × String :=
  let mut1 := fun (op : Option Op) =>
    match op with
    | some op => let (kv', out) := step kv op; (kv', showOutcome out)
    | none => (kv, "bad-op")
  match fs with
  | ["reset"] => (Store.init, "ok")
  | ["add", s] => mut1 ((decSig s).map Op.add)
  | ["addmany", l] => mut1 ((decSigs l).map Op.addMany)
  | ["delete", id] => mut1 ((decStr id).map Op.delete)
  | ["markfp", id, note] => mut1 (do let i ← decStr id; let n ← decStr note; pure (Op.markFP i n))
  | ["migrate", l] =>
    -- MigrateFromJSON: AddSignatures in batches of 1000
    match decSigs l with
    | some l =>
      let kv' := (chunks 1000 l).foldl (fun kv c => (step kv (Op.addMany c)).1) kv
      (kv', s!"ok:{l.length}")
    | none => (kv, "bad-op")
  | ["rebuildclear"] =>
    -- only the FIRST batch of RebuildIndexes (the three range deletes): the committed state a
    -- concurrent reader can observe while the rebuild is still running
    (match rebuildBatches kv with
     | b :: _ => (applyBatch kv b, "ok")
     | [] => (kv, "ok"))
  | ["rebuild"] => mut1 (some Op.rebuild)
  | ["reopen"] => mut1 (some Op.reopen)
  | ["get", id] =>
    match decStr id with
    | some id => (kv, withBrute (encSigOpt (getSig kv id)) (encSigOpt (bruteGet (abs kv) id)))
    | none => (kv, "bad-op")
  | ["bytopo", h] =>
    match decStr h with
    | some h => (kv, withBrute (encSigOpt (byTopology kv h)) (encSigOpt (bruteByTopology (abs kv) h)))
    | none => (kv, "bad-op")
  | ["erange", lo, hi] =>
    match parseRat lo, parseRat hi with
    | some lo, some hi => (kv, withBrute (encIds (entropyRange kv lo hi)) (encIds (bruteEntropyRange (abs kv) lo hi)))
    | _, _ => (kv, "bad-op")
  | ["cands", t, tol] =>
    match decTopo t, parseRat tol with
    | some t, some tol =>
      let H := topoHashOf t
      (kv, withBrute (encIds (candidates kv H t tol)) (encIds (bruteCandidates (abs kv) H t tol)))
    | _, _ => (kv, "bad-op")
  | ["scanfull", t, thr, tol] =>
    match decTopo t, parseRat thr, parseRat tol with
    | some t, some thr, some tol =>
      let H := topoHashOf t
      (kv, withBrute (encAlerts (scanFull kv H t thr tol)) (encAlerts (bruteScanFull (abs kv) H t thr tol)))
    | _, _, _ => (kv, "bad-op")
  | ["scanexact", t, thr, tol] =>
    match decTopo t, parseRat thr, parseRat tol with
    | some t, some thr, some tol =>
      let H := topoHashOf t
      (kv, match scanExact kv H t thr tol with | some r => encAlerts [r] | none => "none")
    | _, _, _ => (kv, "bad-op")
  | ["scanfullnames", t, thr, tol] =>
    match decTopo t, parseRat thr, parseRat tol with
    | some t, some thr, some tol =>
      let H := topoHashOf t
      let names := (scanFull kv H t thr tol).map (fun r => encStr r.sigId ++ "@" ++ encStr r.sigName)
      (kv, String.intercalate "," (names.mergeSort (fun a b => decide (a ≤ b))))
    | _, _, _ => (kv, "bad-op")
  | ["scanexactnames", t, thr, tol] =>
    match decTopo t, parseRat thr, parseRat tol with
    | some t, some thr, some tol =>
      let H := topoHashOf t
      (kv, match scanExact kv H t thr tol with | some r => encStr r.sigId ++ "@" ++ encStr r.sigName | none => "none")
    | _, _, _ => (kv, "bad-op")
  | ["candsnames", t, tol] =>
    match decTopo t, parseRat tol with
    | some t, some tol =>
      let H := topoHashOf t
      (kv, String.intercalate "," ((candidates kv H t tol).map (fun s => encStr s.id ++ "@" ++ encStr s.name)))
    | _, _ => (kv, "bad-op")
  | ["list"] => (kv, withBrute (String.intercalate "," ((listIDs kv).map keyToHex))
                      (String.intercalate "," ((sortById (abs kv)).map (fun s => keyToHex (bytes s.id)))))
  | ["count"] => (kv, withBrute (toString (countSigs kv)) (toString (abs kv).length))
  | ["stats"] =>
    let f := fun (p : Nat × Nat × Nat × Nat) => s!"{p.1},{p.2.1},{p.2.2.1},{p.2.2.2}"
    (kv, withBrute (f (stats kv)) (f (bruteStats (abs kv))))
  | ["export"] => (kv, withBrute (String.intercalate "|" ((exportSigs kv).map encSig))
                        (String.intercalate "|" ((sortById (abs kv)).map encSig)))
  | ["dump"] => (kv, String.intercalate "," (kv.map (fun e => keyToHex e.1)))
  | _ => (kv, "bad-op")

end Driver
