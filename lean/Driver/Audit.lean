import SfwModel.Model.Audit
open Sfw Sfw.Audit Sfw.Json
namespace Driver

def hs (s : String) : Option Str := (hexDecode s).map String.toList
def sh (s : Str) : String := hexEncode (String.ofList s)

def decEvidence (s : String) : Option (Option (List Evidence)) :=
  if s == "null" then some none
  else if s == "" then some (some [])
  else ((s.splitOn ",").mapM (fun (e : String) =>
    match e.splitOn ":" with
    | [f, r, d, o] => do
      let f ← hs f; let r ← r.toInt?; let d ← hs d; let o ← hs o
      pure ({ function := f, riskScore := r, delta := d, addedOps := o } : Evidence)
    | _ => none)).map some

def decScript (s : String) : Option (List Resp) :=
  if s == "" then some [] else
  (s.splitOn ",").mapM (fun (e : String) =>
    if e == "T" then some Resp.transportErr else
    match e.splitOn ":" with
    | [st, b] => do let st ← st.toNat?; let b ← hs b; pure (Resp.http st b)
    | _ => none)

def auditStep (fs : List String) : String :=
  match fs with
  | ["payload", msg, nonce, ev] =>
    match hs msg, hs nonce, decEvidence ev with
    | some m, some n, some e => sh (payload m e n)
    | _, _, _ => "bad-op"
  | ["sentinelinput", pl, nonce] =>
    match hs pl, hs nonce with
    | some p, some n => sh (sentinelInput p n)
    | _, _ => "bad-op"
  | ["clean", t] =>
    match hs t with
    | some t => sh (cleanJSONMarkdown t)
    | none => "bad-op"
  | ["escape", t] =>
    match hs t with
    | some t => sh (quote t)
    | none => "bad-op"
  | ["call", s, m] =>
    match decScript s, decScript m with
    | some s, some m =>
      let o := callLLM s m
      let v := verdictString o.verdict
      let ev := match o.verdict with | .result r => sh r.evidence | _ => "*"
      s!"{sh v}\t{exitOf v}\t{o.requests}\t{ev}"
    | _, _ => "bad-op"
  | _ => "bad-op"

end Driver
