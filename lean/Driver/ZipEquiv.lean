import Driver.Codec
import SfwModel.Model.ZipEquiv
import SfwModel.Model.ZipperCF
open Sfw Sfw.ZipEquiv
namespace Driver

def decS (s : String) : Option String := if s == "-" then some "" else hexDecode s

def decOpView (s : String) : Option OpView :=
  match s.splitOn "," with
  | [n, id, lk, mp, ht, tk, cc, cn] => do
    let id ← id.toNat?
    let mapped ← (if mp == "-" then some none else (mp.toNat?).map some)
    let tk ← decS tk; let cc ← decS cc; let cn ← decS cn
    pure { nilSlot := n == "1", ident := id, linkable := lk == "1", mapped := mapped, hasType := ht == "1",
           typeKey := tk, canonCtx := cc, canonNil := cn }
  | _ => none

def decInstrView (s : String) : Option InstrView :=
  match s.splitOn "|" with
  | [kind, isV, tk, op, flag, name, num, aux, bb, bs, bn, ops] => do
    let kind ← decS kind; let tk ← decS tk; let op ← decS op; let name ← decS name; let aux ← decS aux
    let num ← num.toInt?
    let ops ← (if ops == "" then some [] else (ops.splitOn ";").mapM decOpView)
    pure { kind := kind, isValue := isV == "1", typeKey := tk, op := op, flag := flag == "1", name := name,
           num := num, auxKey := aux, binBasic := bb == "1", binString := bs == "1", binNumeric := bn == "1",
           ops := ops }
  | _ => none

/-- `;`-separated lists of `,`-separated naturals (an empty piece is the empty list) -/
def decNatLists (s : String) : Option (List (List Nat)) :=
  if s == "-" then some [] else
  (s.splitOn ";").mapM (fun piece =>
    if piece == "" then some [] else (piece.splitOn ",").mapM String.toNat?)

/-- `blocks|succs|preds|phis` -/
def decLayout (s : String) : Option ZipperCF.Layout :=
  match s.splitOn "|" with
  | [b, su, pr, ph] => do
    let b ← decNatLists b; let su ← decNatLists su; let pr ← decNatLists pr
    let ph ← (if ph == "" || ph == "-" then some [] else (ph.splitOn ",").mapM String.toNat?)
    pure { blocks := b.toArray, succs := su.toArray, preds := pr.toArray, phis := ph }
  | _ => none

def decPairs (s : String) : Option ZipperCF.Pairs :=
  if s == "-" || s == "" then some [] else
  (s.splitOn ",").mapM (fun e =>
    match e.splitOn ":" with
    | [a, b] => do let a ← a.toNat?; let b ← b.toNat?; pure (a, b)
    | _ => none)

/-- `equiv <view a> <view b>` → 1 | 0 -/
def zipEquivStep (fs : List String) : String :=
  match fs with
  | ["equiv", a, b] =>
    match decInstrView a, decInstrView b with
    | some a, some b => boolStr (areEquivalent a b)
    | _, _ => "bad-op"
  | ["enforce", old, new, pairs] =>
    -- the surviving pairs of `enforceControlFlow`, in the order they were given
    match decLayout old, decLayout new, decPairs pairs with
    | some o, some n, some ps =>
      let r := ZipperCF.enforce o n ps
      if r.isEmpty then "-" else String.intercalate "," (r.map (fun p => toString p.1 ++ ":" ++ toString p.2))
    | _, _, _ => "bad-op"
  | _ => "bad-op"

end Driver
