import Driver.Codec
import SfwModel.Model.ZipEquiv
open Sfw Sfw.ZipEquiv
namespace Driver

def decS (s : String) : Option String := if s == "-" then some "" else hexDecode s

def decOpView (s : String) : Option OpView :=
  match s.splitOn "," with
  | [n, id, lk, mp, ht, tk, cc, cn] => do
    let id ← id.toNat?
    let mapped ← (if mp == "-" then some none else (mp.toNat?).map some)
    let tk ← decS tk; let cc ← decS cc; let cn ← decS cn
    pure { nilSlot := n == "1", ident := id, linkable := lk == "1", mapped := mapped, hasType := ht == "1",
           typeKey := tk, canonCtx := cc, canonNil := cn }
  | _ => none

def decInstrView (s : String) : Option InstrView :=
  match s.splitOn "|" with
  | [kind, isV, tk, op, flag, name, num, aux, bb, bs, bn, ops] => do
    let kind ← decS kind; let tk ← decS tk; let op ← decS op; let name ← decS name; let aux ← decS aux
    let num ← num.toInt?
    let ops ← (if ops == "" then some [] else (ops.splitOn ";").mapM decOpView)
    pure { kind := kind, isValue := isV == "1", typeKey := tk, op := op, flag := flag == "1", name := name,
           num := num, auxKey := aux, binBasic := bb == "1", binString := bs == "1", binNumeric := bn == "1",
           ops := ops }
  | _ => none

/-- `equiv <view a> <view b>` → 1 | 0 -/
def zipEquivStep (fs : List String) : String :=
  match fs with
  | ["equiv", a, b] =>
    match decInstrView a, decInstrView b with
    | some a, some b => boolStr (areEquivalent a b)
    | _, _ => "bad-op"
  | _ => "bad-op"

end Driver
