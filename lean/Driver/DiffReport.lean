import Driver.Codec
import SfwModel.Model.DiffReport
open Sfw Sfw.DiffReport
namespace Driver

def decEntryD (s : String) : Option FnEntry :=
  match s.splitOn "~" with
  | [f, t] => do
    let f ← decStr f
    if t == "nil" then pure { full := f, topo := none }
    else do let t ← decTopo t; pure { full := f, topo := some t }
  | [f, t, fp] => do
    -- third field: the function's fingerprint (hex of the hex string)
    let f ← decStr f
    let fp ← decStr fp
    if t == "nil" then pure { full := f, topo := none, fp := fp }
    else do let t ← decTopo t; pure { full := f, topo := some t, fp := fp }
  | _ => none

def decEntries (s : String) : Option (List FnEntry) :=
  if s == "" then some [] else (s.splitOn "|").mapM decEntryD

/-- `match <thr> <old entries> <new entries>` → matched;added;removed -/
def diffReportStep (fs : List String) : String :=
  match fs with
  | ["match", thr, o, n] =>
    match parseRat thr, decEntries o, decEntries n with
    | some thr, some o, some n =>
      let m := matchFunctions o n thr
      let ms := m.matched.map (fun p => encStr p.old.short ++ ">" ++ encStr p.new.short ++ ":" ++ showRat p.sim ++ ":" ++ boolStr p.byName)
      String.intercalate "," ms ++ ";" ++ String.intercalate "," (m.added.map (fun e => encStr e.short)) ++ ";" ++
        String.intercalate "," (m.removed.map (fun e => encStr e.short))
    | _, _, _ => "bad-op"
  | ["short", n] =>
    match decStr n with
    | some n => encStr (shortFuncName n)
    | none => "bad-op"
  | _ => "bad-op"

end Driver
