import SfwModel.Model.Sandbox
import Driver.PathGuard
open Sfw Sfw.Sandbox Sfw.PathGuard
namespace Driver

def hexL (l : List Str) : String := String.intercalate "," (l.map (fun s => hexEncode (String.ofList s)))
def unhexL (s : String) : Option (List Str) :=
  if s == "" then some [] else (s.splitOn ",").mapM (fun x => (hexDecode x).map String.toList)

def encMount (m : Mount) : String :=
  String.intercalate "|" [hexEncode (String.ofList m.dest), hexEncode (String.ofList m.type),
    hexEncode (String.ofList m.source), String.intercalate "+" (m.options.map (fun o => hexEncode (String.ofList o)))]

def renderSpec (s : Spec) : String :=
  String.intercalate ";" [
    "ro=" ++ boolStr s.rootReadonly, "args=" ++ hexL s.args, "env=" ++ hexL s.env,
    "cwd=" ++ hexEncode (String.ofList s.cwd), "capsB=" ++ hexL s.capsBounding, "capsE=" ++ hexL s.capsEffective,
    "nnp=" ++ boolStr s.noNewPrivileges, "ns=" ++ hexL s.namespaces, s!"mem={s.memLimit}", s!"cpu={s.cpuShares}",
    s!"pids={s.pidsLimit}", s!"uid={s.uid}", s!"gid={s.gid}",
    "mounts=" ++ String.intercalate "," (s.mounts.map encMount)]

def decObs (e : String) : Option MountObs :=
  match e.splitOn ":" with
  | [r, ok, f, ex] => do
    let r ← hexDecode r; let f ← hexDecode f
    pure { request := r.toList, evalOk := ok == "1", finalPath := f.toList, finalExists := ex == "1" }
  | _ => none

def sandboxStep (fs : List String) : String :=
  match fs with
  | ["spec", cwd, libs, goroot, gocache, gce, self, uid, gid, args, wd, reqs] =>
    match hexDecode cwd, hexDecode goroot, hexDecode gocache, hexDecode self, uid.toNat?, gid.toNat?, unhexL args,
          hexDecode wd, (if reqs == "" then some [] else (reqs.splitOn ",").mapM decObs) with
    | some cwd, some goroot, some gocache, some self, some uid, some gid, some args, some wd, some reqs =>
      let h : Host := { cwd := compsOfAbs cwd, libExists := libs.toList.map (· == '1'), goroot := goroot.toList,
                        gocache := gocache.toList, gocacheExists := gce == "1", selfExe := self.toList, uid := uid, gid := gid }
      match genSpec h args wd.toList reqs with
      | .ok s => renderSpec s
      | .error (.reserved a) => "err:reserved:" ++ hexEncode (String.ofList a)
      | .error (.symlink _) => "err:symlink"
      | .error (.missing _) => "err:missing"
    | _, _, _, _, _, _, _, _, _ => "bad-op"
  | ["prep", rootfs, dests] =>
    match hexDecode rootfs, unhexL dests with
    | some rootfs, some dests =>
      let r := compsOfAbs rootfs
      match dests.findIdx? (fun d => escapes r d) with
      | some i => s!"escape:{i}"
      | none => "ok"
    | _, _ => "bad-op"
  | _ => "bad-op"

end Driver
