import SfwModel.Model.Match
import SfwModel.Model.Sha256
open Sfw
namespace Driver

def decStr (s : String) : Option Str := (hexDecode s).map String.toList
def encStr (s : Str) : String := hexEncode (String.ofList s)

def decStrList (s : String) : Option (List Str) :=
  if s == "" then some [] else (s.splitOn ",").mapM decStr

def encStrList (l : List Str) : String := String.intercalate "," (l.map encStr)

def decMap (s : String) : Option (List (Str × Nat)) :=
  if s == "" then some [] else
  (s.splitOn ",").mapM (fun e =>
    match e.splitOn ":" with
    | [k, c] => do let k' ← decStr k; let c' ← c.toNat?; pure (k', c')
    | _ => none)

def decTopo (s : String) : Option Topo :=
  match s.splitOn ";" with
  | [p, r, b, i, l, br, calls, instrs, binops, pt, rt, flags, strs, ent] => do
    let p ← p.toInt?; let r ← r.toInt?; let b ← b.toInt?; let i ← i.toInt?; let l ← l.toInt?; let br ← br.toInt?
    let calls ← decMap calls; let instrs ← decMap instrs; let binops ← decMap binops
    let pt ← decStrList pt; let rt ← decStrList rt; let strs ← decStrList strs
    let ent ← parseRat ent
    let f := flags.toList
    if f.length != 5 then none else
    pure { paramCount := p, returnCount := r, blockCount := b, instrCount := i, loopCount := l, branchCount := br,
           calls := calls, instrs := instrs, binops := binops, paramTypes := pt, returnTypes := rt,
           hasDefer := f[0]! == '1', hasPanic := f[1]! == '1', hasGo := f[2]! == '1', hasSelect := f[3]! == '1',
           hasRange := f[4]! == '1', strings := strs, entropy := ent }
  | _ => none

def decSig (s : String) : Option Sig :=
  match s.splitOn ";" with
  | [id, name, sev, th, fh, ent, tol, nc, ld, req, pat, extra, refs] => do
    let extra ← decStr extra; let refs ← decStrList refs
    let id ← decStr id; let name ← decStr name; let sev ← decStr sev; let th ← decStr th; let fh ← decStr fh
    let ent ← parseRat ent; let tol ← parseRat tol; let nc ← nc.toInt?; let ld ← ld.toInt?
    let req ← decStrList req; let pat ← decStrList pat
    pure { id := id, name := name, severity := sev, topoHash := th, fuzzyHash := fh, entropy := ent, tol := tol,
           nodeCount := nc, loopDepth := ld, required := req, patterns := pat, extra := extra, refs := refs }
  | _ => none

def encSig (s : Sig) : String :=
  String.intercalate ";" [encStr s.id, encStr s.name, encStr s.severity, encStr s.topoHash, encStr s.fuzzyHash,
    showRat s.entropy, showRat s.tol, toString s.nodeCount, toString s.loopDepth, encStrList s.required, encStrList s.patterns,
    encStr s.extra, encStrList s.refs]

def decSigs (s : String) : Option (List Sig) :=
  if s == "" then some [] else (s.splitOn "|").mapM decSig

def showConf : Conf → String
  | .nan => "nan"
  | .val q => showRat q

def topoHashOf (t : Topo) : Str := (Sha256.hash16 (String.ofList (topoHashInput t))).toList

def encResult (r : MatchResult) : String :=
  String.intercalate "\t" [encStr r.sigId, showConf r.conf, boolStr r.topoMatch, showRat r.topoSim, boolStr r.entropyMatch,
    showRat r.entropyDist, encStrList r.callsMatched, encStrList r.callsMissing, encStrList r.stringsMatched]

def encAlerts (l : List MatchResult) : String :=
  String.intercalate "," (l.map (fun r => encStr r.sigId ++ ":" ++ showConf r.conf))

end Driver
