"""Per-property configuration of the check driver: which differential suites tie the Lean
model to /repo, which theorems must exist, what is trusted / partial."""

PROPS = {
    "C15": {
        "technique": "Lean 4 theorems for every environment list + raw-envp differential in a re-exec'd child",
        "suites": [{"name": "env", "quick": 600, "thorough": 8000}],
        "lean_modules": ["SfwModel.Props.C15", "SfwModel.Props.C15Facts"],
        "required_theorems": ["C15_overrides_effective", "C15_overrides_last", "C15_passthrough",
                              "C15_passthrough_order", "C15_effective_passthrough", "C15_every_loader_uses_the_hardened_env"],
        "trusted_base": [
            "os/exec keeps the LAST entry of a duplicated key (modelled as `effective`)",
            "Go's strings.ToUpper maps into ASCII only a-z, U+017F and U+0131 (driver instance `goUpper`; the theorems hold for every `upper`)",
            "the Go runtime's os.Environ() (the harness feeds the model what the child process's os.Environ() returned)"],
        "level_text": "Kernel-checked theorems (for every environment list and every case-mapping function) that the seven overrides are the effective last-wins values and that unguarded entries pass through in order; the model is tied to GetHardenedEnv by running both on raw envp vectors in a re-exec'd child.",
        "level_note": "Trusted: Lean kernel, os/exec last-wins de-duplication, the runtime's os.Environ(), the harness. The model is hand-written; the tie is behavioural and bounded by the generator.",
        "assumptions": ["entries are valid UTF-8 in the model differential; invalid UTF-8 goes through the Go-side oracle only"],
    },
}

PROPS["C08"] = {
    "needs_sfw": True,
    "technique": 'Lean 4 theorems over exact rationals on the shared alert pipeline + differential and oracles on both backends',
    "suites": [{"name": "match", "quick": 1200, "thorough": 6000}, {"name": "cli", "quick": 1, "thorough": 6, "timeout": 3000}],
    "required_theorems": ["C08_alert_ge_threshold", "C08_alert_veto", "C08_conf_range", "C08_alerts_sorted",
                          "C08_threshold_antitone", "C08_exact_in_full_json"],
    "level_text": "Kernel-checked theorems over exact rationals with an explicit NaN: every alert of the shared alert pipeline has a real confidence >= threshold, in [0,1], all required calls present (veto), alerts sorted, raising the threshold only removes alerts, JSON exact ⊆ full under the property's scoping (Pebble exact ⊆ full is C06_scanExact_sound + C06_scanFull_eq). The model is tied to MatchSignature / jsondb / pebbledb scans by a differential on generated topologies and signature sets, and the same clauses are evaluated as oracles on the real alerts of both backends.",
    "level_note": "Trusted: Lean kernel; float64 vs exact rational arithmetic (tied by |Δ|<=2^-40 comparison, decisions within 1e-9 of a threshold skipped and counted); strings.ToLower modelled on ASCII; the harness.",
    "trusted_base": ["IEEE-754 float64 rounding is not modelled: theorems are over Rat, the differential bounds the gap",
                     "strings.Contains / ToLower / Trim modelled on List Char (ASCII case mapping)"],
    "assumptions": ["signature tolerances >= 0, entropies on a 1/64 grid in the differential"],
}
PROPS["C05"] = {
    "needs_sfw": True,
    "technique": 'Lean 4 proof that match(t, index(t)) = 1 and is reported by both backends + index/scan differential on generated Go sources',
    "suites": [{"name": "match", "quick": 250, "thorough": 6000}, {"name": "indexscan", "quick": 3, "thorough": 30, "timeout": 3000}, {"name": "cli", "quick": 1, "thorough": 6, "timeout": 3000},
               # "found again" also when the scan runs on a handle other goroutines write to: the stress of C11
               # without the race detector (a scan that misses a signature whose add has returned is C05's clause too)
               {"name": "concurrent", "timeout": 3000}],
    "also": ["C11"],
    "lean_modules": ["SfwModel.Props.C05", "SfwModel.Props.C05Pipeline"],
    "required_theorems": ["C05_self_match", "C05_found_in_alerts", "C05_found_exact_json",
                          "C05_pipeline_per_function", "C05_pipeline_reports_indexed_function", "C05_topology_hash_does_not_determine_alerts"],
    "level_text": "Kernel-checked: MatchSignature(t, IndexFunction(t)) has confidence exactly 1 for every topology, hash value and default tolerance, hence the indexed signature is reported by the alert pipeline of either backend at every threshold <= 1 and by JSON exact mode; the per-file scan pipeline (model of cli runScanParallel) reports for every function exactly the scanner's alerts for that function's own topology, whatever siblings the file holds and wherever they stand, and the topology hash provably does NOT determine the alerts (two same-hash topologies with other literals are answered differently), so nothing may be remembered under it. Tie: every variant file is also scanned through the real cli.RunScanParallel (both backends, full and exact) and every function must carry its alert; IndexFunction, GenerateTopologyHash (model SHA-256), GenerateFuzzyHash, MatchSignature differential; self-match evaluated on the real code for every generated topology; the concurrent stress of C11 (one writer, scanning goroutines, the writer scanning for what it has just written) is run for this property too: a scan that misses a signature whose add has returned breaks 'found again'.",
    "level_note": "PARTIAL: the SSA-extraction half (topology of a renamed/reformatted copy equals the original's) is a fact about go/ssa + ExtractTopology and is validated by differential runs on generated Go sources, not proved. Trusted: Lean kernel, SHA-256 model used only for equality, harness.",
    "partial": "name-independence of ExtractTopology is validated, not proved",
    "trusted_base": ["go/packages + go/ssa construction and topology.ExtractTopology are exercised, not modelled"],
}
PROPS["C19"] = {
    "technique": 'Lean 4 theorems on similarity (symmetry, range, identity) and on rename pairing + similarity and diff-report differentials',
    "lean_modules": ["SfwModel.Props.C19", "SfwModel.Props.C09", "SfwModel.Props.C19Limits", "SfwModel.Props.C19Rename"],
    "suites": [{"name": "sim", "quick": 1500, "thorough": 40000}, {"name": "diffreport", "quick": 8, "thorough": 150, "timeout": 3000}],
    "required_theorems": ["C19_unique_body_rename_chosen", "C19_unique_body_rename_needs_tiebreak", "C19_threshold_matches_source", "C19_sim_symm", "C19_sim_range", "C19_sim_self", "C19_sim_eq_one_of_eq_features",
                          "C19_mapSim_symm", "C19_typeListSim_symm", "C19_pairs_injective", "C19_pairs_above_threshold",
                          "C19_rename_found"],
    "level_text": "Kernel-checked over exact rationals: TopologySimilarity is symmetric, lies in [0,1] and is exactly 1 whenever the name-free features agree (so for a renamed copy); the model is tied to topology.TopologySimilarity by a differential on generated topology pairs in both argument orders, with the same three clauses checked on the real floats.",
    "level_note": "Trusted: Lean kernel; float64 vs Rat (|Δ|<=2^-40); Go map iteration modelled as duplicate-free association lists. The rename-pairing clauses are theorems about the matcher model (pairs one-to-one, every fuzzy pair >= threshold, a renamed-only function whose shape is unique among the leftovers is paired with its copy) tied by the diff-report differential on the real cli.ComputeDiff.",
    "trusted_base": ["frequency maps are modelled as duplicate-free association lists (hypothesis NodupKeys in the theorems)"],
}
PROPS["C20"] = {
    "technique": 'Lean 4 theorems on the path guard over an abstract file system with symlinks + path-spelling differential through the real guard (guard-only hook)',
    "suites": [{"name": "pathguard"}],
    "required_theorems": ["C20_guard_refuses_iff", "C20_guard_passes_outside", "C20_inside_iff_string",
                          "C20_resolve_eq_real", "C20_resolve_no_symlink", "C20_old_guard_lookalike"],
    "level_text": "Theorems about the guard model over an abstract file system with symlinks (decision = component-wise containment of the resolved location; prefix-retrying EvalSymlinks agrees with one physical walk; string vs component prefix). Tie: every path spelling of the quantifier (404 cases: 6 protected dirs x spellings x ro/rw, symlink trees under a temp dir) is run through the real NewPebbleScanner in guard-only mode (hook H2, nothing is opened) and compared with an independent Lstat/Readlink walk and with the Lean guard fed the same file-system description.",
    "level_note": "Trusted: Lean kernel; the kernel's path resolution as re-implemented by the harness oracle; filepath.EvalSymlinks modelled as `evalSym`. Dangling symlinks are outside the agreement theorem.",
    "trusted_base": ["filepath.EvalSymlinks / os.Getwd behaviour as modelled by evalSym/absComps", "hook H2 (guard-only probe) placed directly after the sanitisation block"],
}
PROPS["C06"] = {
    "technique": 'Lean 4 refinement proof (KV with indexes refines ID -> Signature, every history) + op-sequence differential on a real Pebble',
    "suites": [{"name": "store", "quick": 200, "thorough": 1500, "timeout": 3000}, {"name": "migrate", "timeout": 3000}],
    "also": ["C18"],   # lookups after a JSON migration are part of "every lookup reflects the stored set"; the migrate suite tags C18
    "required_theorems": ["C06_inv_init", "C06_inv_step", "C06_reachable_inv", "C06_abs_nodup", "C06_abs_step", "C06_get_eq",
                          "C06_byTopology_eq", "C06_candidates_eq", "C06_scanFull_eq", "C06_scanExact_sound",
                          "C06_scanExact_complete", "C06_count_eq", "C06_list_eq", "C06_export_eq", "C06_stats_eq",
                          "C06_entropyRange_eq"],
    "level_text": "Refinement proof: the Pebble-with-indexes model refines the spec ID -> Signature; invariant preserved by every well-formed operation for every finite history; each lookup equals brute force over the surviving records. Tie: random histories on a real on-disk Pebble with all lookups after every step, compared with the harness's own surviving-signature map (oracle) and with the Lean model.",
    "level_note": "Trusted: Lean kernel; Pebble's batch atomicity and iterator order (modelled as a sorted association list); gob/JSON record encoding (identity in the model, round trip covered by the differential); `%08.4f` modelled as fixed-width round-half-even.",
    "trusted_base": ["Pebble batch atomicity, byte-lexicographic iteration, snapshots", "encoding/gob round trip of detection.Signature"],
    "assumptions": ["topology/fuzzy hashes contain no ':' (the product's own hash alphabets)", "IDs non-empty"],
}

PROPS["C14"] = {
    "technique": 'Lean 4 theorems on the sandbox specification model + whole-Spec differential on generated mount sets',
    "suites": [{"name": "sandbox", "quick": 400, "thorough": 8000}],
    "required_theorems": ["C14_lockdown", "C14_binds_readonly", "C14_parent_first", "C14_reserved_rejected",
                          "C14_user_mounts", "C14_escape_rejected"],
    "level_text": "Kernel-checked theorems about the generateSpec / prepareMountPoints model for every request list and host observation: lock-down constants, every bind mount read-only, no mount listed before one of its ancestors (sortedness + prefix-is-smaller), reserved collisions rejected, escaping mount points rejected. Tie: the real functions (through an overlay-injected accessor) on generated request sets (nested, duplicated, relative, symlinks, reserved spellings, '..') compared with the model on the WHOLE Spec; the same clauses are checked as oracles on the real Spec.",
    "level_note": "Trusted: Lean kernel; filepath.Abs modelled lexically; EvalSymlinks/Stat results are observations passed to the model; the OCI runtime itself (runsc is not installed) is out of scope; parent-first assumes GOROOT, when set, is absolute.",
    "trusted_base": ["filepath.Abs = lexical clean of cwd-joined path", "host observations (lib paths exist, EvalSymlinks results) gathered by the harness with the standard library"],
}
PROPS["C13"] = {
    "lean_modules": ["SfwModel.Props.C13", "SfwModel.Props.C13Limits"],
    "technique": 'Lean 4 proof of fail-closed decision logic and envelope integrity + scripted HTTP provider driving the real audit path, byte-level payload differential',
    "suites": [{"name": "audit", "quick": 500, "thorough": 12000, "timeout": 3000}],
    "required_theorems": ["C13_retry_limit_matches_source", "C13_fail_closed", "C13_faults_never_pass", "C13_retry_bound", "C13_exit_total", "C13_verdict_exact",
                          "C13_lex_roundtrip", "C13_payload_lines", "C13_markers_once", "C13_truncate", "C13_escape_no_newline"],
    "level_text": "Kernel-checked: exit 0 implies no high risk, or a sentinel text decoding to safe=true AND a main text decoding to verdict exactly \"MATCH\" that passes validation (for every response sequence of both calls); faults never pass; at most 4 requests per call; the JSON-quoted commit message lexes back to exactly itself and stops at its own closing quote (cannot close the string), every line of the enveloped JSON starts with '{', '}' or a space so no line can be a BEGIN/END marker, markers occur exactly once. Tie: a scripted local HTTP provider drives the real llm.CallLLM and cli.RunAudit; verdict, exit, request count and the payload BYTES are compared with the Lean model (which contains a JSON parser, Go's string encoder, cleanJSONMarkdown's regex semantics and encoding/json's struct decoding rules), and 'well-formed MATCH' is known by construction of each scenario.",
    "level_note": "Trusted: Lean kernel; Go's encoding/json and regexp as modelled (validated byte-for-byte by the differential); the Gemini path (genai SDK) is exercised only through the shared parsing/validation code, its retry loop is not scripted; net/http transport behaviour.",
    "trusted_base": ["encoding/json Unmarshal/Marshal semantics as re-implemented in Model/Json.lean + Model/Audit.lean", "regexp (RE2) leftmost-first semantics for the two fence patterns as modelled by fenceCapture"],
    "partial": "the Gemini provider's retry loop (genai SDK) is not scripted; invalid UTF-8 in commit messages goes through the Go-side envelope oracle only",
}
PROPS["C07"] = {
    "technique": 'Lean 4 proof over crash prefixes of the batch log + SIGKILL / power-loss fault enumeration on the real store',
    "suites": [{"name": "crash", "quick": 24, "thorough": 150, "timeout": 3000}],
    "required_theorems": ["C07_single_batch", "C07_crash_atomic", "C07_log_replay", "C07_history_crash_consistent",
                          "C07_rebuild_crash_keeps_records", "C07_rebuild_crash_recordsOk", "C07_rebuild_repairs"],
    "level_text": "Kernel-checked on the store model: every mutation except the rebuild commits at most one atomic batch, so every crash prefix of the batch log of ANY rebuild-free history is the state after a prefix of the operations and satisfies the index invariant; an interrupted rebuild never changes a record, and re-running the rebuild from ANY state with intact records restores the full invariant with the same records. Tie (fault enumeration validating the model): a child process is SIGKILLed before every write-type file-system call of short histories on a real directory and the reopened store must be the state after `acked` or `acked+1` operations with consistent indexes (raw key dump == the Lean model's key set); on a strict in-memory FS unsynced data is dropped after every acknowledged operation.",
    "level_note": "PARTIAL: Pebble's commit pipeline (WAL record atomicity, MANIFEST handling, fsync semantics of a real disk) is trusted, not modelled; the theorem is about the store's USE of atomic batches. Trusted: Lean kernel, hooks H1 (FS injection) and VerifDB (raw key dump).",
    "partial": "Pebble's WAL/manifest atomicity and real-disk sync semantics are trusted",
    "trusted_base": ["pebble.Batch.Commit(Sync) is atomic and durable", "vfs.NewStrictMem drop-unsynced semantics / SIGKILL process-death semantics"],
}
PROPS["C18"] = {
    "needs_sfw": True,
    "lean_modules": ["SfwModel.Props.C18", "SfwModel.Props.C18Limits"],
    "technique": 'Lean 4 theorems on migration/export, truncation and the atomic-replace protocol + every-byte truncation and strace correspondence',
    "suites": [{"name": "migrate", "timeout": 3000}, {"name": "cli", "quick": 1, "thorough": 6, "timeout": 3000}],
    "required_theorems": ["C18_batch_size_matches_source", "C18_migrate_eq", "C18_migrate_inv", "C18_export_migrate", "C18_get_after_add", "C18_get_after_batch",
                          "C18_json_get_after_add", "C18_json_get_after_batch", "C18_full_file_ok", "C18_truncation_reported",
                          "C18_atomic_replace"],
    "level_text": "Kernel-checked: migration (AddSignatures over batches of 1000) imports exactly the last version of every ID for lists of ANY length and export returns them sorted by ID field for field; get-after-add (single and batch) on both backend models; the token-level decode loop never reports success with fewer signatures than the file holds, for every cut; a system-call trace that follows the temp-file/fsync/close/rename protocol leaves old-or-new content after a crash at any point. Tie: generated lists (sizes around the 1000 boundary, repeated IDs within and across batches, unicode) through the real MigrateFromJSON/ExportToJSON vs the store model and a last-wins oracle; EVERY byte truncation of small files vs the token model; jsondb add/get histories; SaveDatabase under strace checked by the executable protocol predicate.",
    "level_note": "Trusted: Lean kernel; encoding/json's streaming Decoder as abstracted to tokens (validated per cut); gob round trip; rename(2) atomicity and fsync durability of the kernel; strace's view of the system calls.",
    "trusted_base": ["encoding/json Decoder token semantics (abstracted, validated on every byte cut)", "kernel rename(2) atomicity / fsync durability"],
}
PROPS["C11"] = {
    "technique": 'Lean 4 interleaving theorem (scan = pure scan of one snapped version) + race-detector stress with a model-computed version-window oracle',
    "suites": [{"name": "concurrent", "race": True, "timeout": 3000}],
    "required_theorems": ["C11_scan_linearises", "C11_snapshot_in_window", "C11_versions_stable",
                          "C11_scan_correct_for_version", "C11_mixed_read_counterexample"],
    "level_text": "Kernel-checked interleaving theorem: for every schedule of writer commits, setter calls and reader steps, a finished scan equals the pure scan of the one version it snapped (which existed during the scan) at the threshold/tolerance it read; the live-read variant is refuted by a concrete schedule. Tie: stress under the race detector with a logged writer and version-window oracle computed by the Lean store model.",
    "level_note": "PARTIAL: absence of data races and Pebble's snapshot isolation are runtime facts, exercised under -race, not proved; the Go scheduler is sampled.",
    "partial": "data-race freedom and Pebble snapshot isolation are exercised, not proved",
    "trusted_base": ["pebble.Snapshot isolation", "Go race detector (sampled schedules)"],
}
PROPS["C09"] = {
    "needs_sfw": True,
    "technique": "Lean 4 theorems on the matcher/report bookkeeping and the zipper's map bookkeeping + regenerated go/ast facts + oracle on the real zipper maps",
    "lean_modules": ["SfwModel.Props.C09", "SfwModel.Props.C09Zipper", "SfwModel.Props.C09Facts", "SfwModel.Props.C09Equiv", "SfwModel.Props.C04Enforce"],
    "suites": [{"name": "diffreport", "quick": 10, "thorough": 150, "timeout": 3000}, {"name": "zipeq", "quick": 4, "thorough": 40, "timeout": 3000}, {"name": "cli", "quick": 1, "thorough": 6, "timeout": 3000}],
    "required_theorems": ["C09_enforce_sublist", "C09_enforce_noop", "C09_old_partition", "C09_new_partition", "C09_same_name_paired", "C09_byName_iff",
                          "C09_summary_counts", "C09_lockstep_reachable", "C09_one_to_one", "C09_accounting",
                          "C09_unguarded_breaks", "C09_single_writer", "C09_matchUsers_guarded",
                          "C09_equivalent_same_kind", "C09_equivalent_same_type", "C09_equivalent_same_arity"],
    "level_text": "Kernel-checked on the model of MatchFunctionsByTopology + ComputeDiff's bookkeeping: every old and every new function lies in exactly one of matched/added/removed (for all lists with distinct short names and every threshold), name-identical functions are paired by name, by-name pairs have equal names, summary counters equal the entry counts. Tie: generated old/new file pairs (kept/edited/renamed/same-shape renamed/added/removed functions, methods, closures) through the real cli.ComputeDiff; the matched/added/removed partition is compared with the Lean model fed the real function lists and topologies, and every clause is evaluated on the real report. Last clause (instruction level): the real Zipper is run on every paired function and its forward/reverse instruction maps (hook) are checked to be inverse bijections between same-kind, same-type instructions, with MatchedNodes and the added/removed lists recomputed from the maps.",
    "level_note": "PARTIAL: for the instruction-level clause Lean proves the BOOKKEEPING (every sequence of guarded proposals keeps the two maps inverse, hence one-to-one; matched + removed = old, matched + added = new; the unguarded variant is refuted) and regenerated go/ast facts pin that recordInstrMatch is the only writer and that matchUsers checks both maps; the equivalence test itself (areEquivalent: kind, type identity, operator fields, operands through the value map, gated commutativity, the phi rule) is modelled in Model/ZipEquiv.lean and tied to the real Zipper DECISION BY DECISION through a trace hook (thousands of decisions per run, taken in the live state); theorems: equivalent instructions have the same kind, identical types, same arity and operator fields. Not modelled: the ORDER in which pairs are proposed (fingerprint buckets, sort.Sort tie-breaks) - covered by the bookkeeping theorems, which hold for every order. Trusted: Lean kernel; float64 vs Rat similarity (near-ties skipped and counted); hook VerifInstrMaps.",
    "partial": "zipper instruction matching is checked by oracle on the real maps, not proved",
    "trusted_base": ["go/ssa construction; topology.ExtractTopology (fed to the model as data)", "hook VerifInstrMaps (read-only accessor)"],
}
PROPS["C10"] = {
    "technique": 'Lean 4 permutation-invariance theorems (matcher, total alert order, result slots) + regenerated facts tying the sort key + repeated runs of the real binary',
    "lean_modules": ["SfwModel.Props.C10", "SfwModel.Props.C10Facts", "SfwModel.Props.C10Topo", "SfwModel.Props.C09"],
    "suites": [{"name": "repeat", "timeout": 3000}, {"name": "diffreport", "quick": 6, "thorough": 60, "timeout": 3000}],
    "needs_sfw": True,
    "required_theorems": ["C10_match_perm_invariant", "C10_scan_sort_key_is_modelled", "C10_matcher_sorts_names", "C10_alerts_order_schedule_invariant", "C10_alerts_sorted",
                          "C10_sort_perm_invariant", "C10_slots_schedule_invariant", "C10_slot_content", "C10_old_key_not_total",
                          "C10_topology_hash_enumeration_invariant", "C10_topology_fingerprint_enumeration_invariant",
                          "C10_topology_fingerprint_needs_the_sort", "C10_topology_fingerprint_truncates"],
    "level_text": "Kernel-checked, each for EVERY arrival order: the diff matcher's outcome (pairs, similarities, added, removed) is invariant under every permutation of the old and of the new function list (the Go maps' iteration order) for lists with distinct short names; scan's alert order (model of the less-function of RunScanLogic: a strict total order on the alert key, proved irreflexive/trichotomous/transitive) gives the same sorted list for any two permutations of the alerts, whereas the pre-fix key provably does not; check's index-addressed result slots end in the same array whatever order the workers finish in; the two strings the topology code derives by ranging over the CallSignatures MAP - the input of GenerateTopologyHash and the shape string TopologyFingerprint printed in every diff report - are the same for every enumeration order of the map (the unsorted variant is refuted). Tie: the real TopologyFingerprint of every function of every generated pair and of 300 synthetic topologies (0-12 calls, non-ASCII names) is compared with the model, and the report's old_topology / new_topology with the paired functions' topologies; the model is compared with the real ComputeDiff on generated pairs with tied candidates; and the real binary (built from the working tree) is run repeatedly at GOMAXPROCS 1, 2 and 16 on generated trees shaped to tie (identical shapes, identical short names across packages, a database indexed from the tree itself) for check, scan (Pebble, Pebble --exact, JSON) and diff; every stdout must be byte-identical.",
    "level_note": "PARTIAL: scheduling of the per-file goroutines and Go map iteration order are sampled by repetition (3 x 3 runs quick, 12 x 3 on three trees thorough), not enumerated; the theorem covers the matcher, the alert-sort and slot theorems cover scan/check ordering. Trusted: Lean kernel, go/packages load order.",
    "partial": "goroutine schedules and map orders are sampled by repeated runs",
    "trusted_base": ["Go runtime scheduler and map iteration (sampled)", "sort.SliceStable is a stable sort (modelled as mergeSort)"],
}
PROPS["C12"] = {
    "technique": 'Lean 4 proof of the closed form and of trip-count soundness against reference loop semantics + natively executed instrumented twin loops',
    "also": ["C01"],   # the shared canon correspondence suite tags its violations C01
    "suites": [{"name": "loops", "quick": 400, "thorough": 4000, "timeout": 3000}, {"name": "canon", "timeout": 3000}],
    "lean_modules": ["SfwModel.Props.C12", "SfwModel.Props.C12IV", "SfwModel.Props.C12Wrap", "SfwModel.Props.C12Dom"],
    "required_theorems": ["C12_closed_form", "C12_closed_form_mod_width", "C12_negate_sound", "C12_flags_sound_left",
                          "C12_flags_sound_right", "C12_terminates", "C12_trip_count_sound", "C12_runs_unique",
                          "C12_bodyCount_runs", "C12_formula_needs_step_sign", "C12_inclusive_equal_bounds_fixed",
                          "C12_iv_edges", "C12_iv_basic_guard", "C12_iv_two_updates_rejected", "C12_iv_reverse_subtraction_rejected",
                          "C12_trip_count_sound_on_the_counters_type", "C12_narrow_counter_wrap_fixed",
                          "C12_dominates_iff", "C12_exit_test_on_every_iteration", "C12_narrow_computed_bound_fixed"],
    "level_text": "Kernel-checked: a header phi is summarised as an induction variable ONLY IF every edge from inside the loop carries the one integer update `phi ± step` and every outside edge the one start value (guard of classifyIV; two different updates on two back edges are rejected); a variable updated by `i += step` on every trip holds start + k*step at the k-th header evaluation, and that value modulo 2^w on w-bit integers; the model of deriveTripCount's decision chain (operator negation by exit polarity, flags, IV on either side, dead/divergent pre-checks, step-sign requirement, the six closed forms with truncated division and max(0,.)) is sound: whenever the stored trip count evaluates to a number at given argument values the loop `for i := start; i cmp limit; i += step` executes its body exactly that many times (for `!=` under termination); the same on the counter's own 8/16/32/64-bit type with wrap-around, for every count that survives the tripCountMayWrap gate. The proof attempt exposed a real defect (inclusive test with equal constant bounds), now fixed and kept as a regression theorem; the narrow-counter wrap (uint8 1..<255 step 5: annotated 51, runs 102) is kept as C12_narrow_counter_wrap_fixed. The model's dominance test (a fuel-bounded worklist search) is proved to BE dominance (C12_dominates_iff: a lies on every path from a root to b), and the condition deriveTripCount now imposes - the exiting block dominates every back edge - is proved to mean that every walk from the header to a latch, one iteration, passes the exit test (C12_exit_test_on_every_iteration). Tie: the model's loop analysis and rendered TripCount / closed forms are compared byte for byte with the real canonical IR on the corpus including 40+ generated counted loops of every form and counter type (int, uint8, int8, uint16, int32; exit test on every iteration or skipped on some); independently the REAL exported SCEV trees are evaluated at 12 argument vectors and compared with header values and body counts recorded by a natively executed instrumented twin of each loop.",
    "level_note": "PARTIAL: the link from Go SSA to the abstract counted loop (that the header phi really is updated by `+ step` on every back edge, that the exit test is the only exit) is go/ssa semantics and is validated by native execution, not proved. Trusted: Lean kernel; SCEV.eval as the reading of a SCEV tree (harness evalSCEV is its Go twin); wrap-around: the closed-form theorem is modulo 2^w; the trip-count theorem exists on unbounded Int (C12_trip_count_sound) and on the counter's own type (C12_trip_count_sound_on_the_counters_type: every count that survives tripCountMayWrap is the number of body executions with wrap-around arithmetic; for 64-bit counters with a non-constant bound under the premise that the loop ends before the counter reaches the end of its range).",
    "partial": "SSA-to-counted-loop abstraction validated by native execution, not proved; trip counts of 64-bit counters with non-constant bounds proved under a no-wrap premise",
    "trusted_base": ["go/ssa construction and the Go compiler (native twin)", "SCEV.eval / harness evalSCEV as the meaning of a trip-count expression"],
}
PROPS["C01"] = {
    "technique": 'Lean 4 proof of the pool protocol (any pool content, any interleaving) + `decide` theorems over go/ast facts regenerated from the source + byte-for-byte correspondence of the Lean canonicaliser + repeat/concurrent/other-process differential',
    "suites": [{"name": "fpdet", "quick": 6, "thorough": 40, "timeout": 3000}, {"name": "canon", "timeout": 3000}],
    "lean_modules": ["SfwModel.Props.C01", "SfwModel.Props.C01Facts", "SfwModel.Props.C10"],
    "required_theorems": ["C01_pool_history_independent", "C01_history", "C01_concurrent_results_fresh",
                          "C01_reset_covers_fields", "C01_scratch_reset_covers_maps", "C01_no_process_state",
                          "C01_map_ranges_reviewed", "C01_results_sorted"],
    "level_text": "Kernel-checked pool-protocol theorems: for EVERY pool content (dirty objects included), every choice of sync.Pool.Get and every interleaving of concurrent callers, each result equals what a fresh canonicaliser computes, provided fullReset re-initialises the per-function state - and that proviso is re-derived from the source on every run: a go/ast extractor regenerates Generated/Facts.lean (struct fields, fields touched by fullReset/resetScratch, package-level variables, every `for range` over a map, the sort in FingerprintPackages) and `decide` theorems compare it with reviewed expectations. The canonicaliser itself is modelled as a pure function of an exported MiniSSA that carries no names, positions or paths, and reproduces the real CanonicalIR byte for byte on 900+ functions. Behavioural tie: the same generated sources are fingerprinted repeatedly, after unrelated functions, from 8 concurrent goroutines, from another directory and in another process at GOMAXPROCS 1/2/16; all (name, fingerprint, IR) triples must be identical.",
    "level_note": "PARTIAL: go/packages + go/ssa determinism (SSA construction order, naming) and the Go scheduler are exercised, not modelled; map-range sites are reviewed by hand and pinned by the regenerated facts, so an unreviewed new site breaks the proof obligation rather than being analysed. Trusted: Lean kernel, the extractor (syntactic, no type information), the harness.",
    "partial": "go/ssa construction determinism and the reviewed map-range sites are trusted/pinned, not proved order-insensitive in Lean",
    "trusted_base": ["go/packages, go/ssa (deterministic construction)", "harness/extract (go/ast fact extractor)", "sync.Pool hands out an object to one goroutine at a time"],
}
PROPS["C02"] = {
    "technique": 'Lean 4 theorems on each normalisation of the Lean canonicaliser (tied byte for byte to the real one) + refactoring catalogue on generated Go with real fingerprints',
    "also": ["C01"],   # the shared canon correspondence suite tags its violations C01
    "suites": [{"name": "refactor", "quick": 8, "thorough": 60, "timeout": 3000}, {"name": "canon", "timeout": 3000},
               {"name": "ssasem", "quick": 4, "thorough": 30, "timeout": 3000}],
    "lean_modules": ["SfwModel.Props.C02", "SfwModel.Props.C02Limits", "SfwModel.Props.C02Sem", "SfwModel.Props.C02Findings"],
    "required_theorems": ["C02_loop_summary_constants_printed_verbatim", "C02_big_loop_bound_decides_the_text_counterexample", "C02_big_loop_step_decides_the_text_counterexample",
                          "C02_default_policy_matches_source", "C02_self_reference_name_free", "C02_commutative_operands_exchange", "C02_noncommutative_keeps_order",
                          "C02_flip_decision", "C02_flip_meets", "C02_flip_idempotent", "C02_string_literals_abstracted",
                          "C02_big_int_literals_abstracted", "C02_small_range",
                          "C02_sem_flip_and_commute_are_cosmetic", "C02_sem_commuted_operands_same_value"],
    "level_text": "Kernel-checked on the Lean canonicaliser (which reproduces the real CanonicalIR byte for byte on 900+ functions on every run, from an export that carries no local, parameter, label or position names): each normalisation of the catalogue is a theorem about the function that implements it - self/closure references are printed without the function's name; a commutative BinOp prints the same text for both operand orders; a swap is recorded exactly for >=/> and prints the opposite test with exchanged successors, which is how the opposite spelling prints (and < / <= are fixed points); under the default policy every string literal and every integer literal outside [-16,16] is abstracted in EVERY usage context. Behavioural tie: generated functions (straight-line, branching, nested loops, slices, strings, calls, closures, recursion, methods) and a catalogue of hand-shaped specials on defined types, methods, labels and closures are refactored (rename locals/params/labels/function, reformat, reorder, flip, commute, big-int and string literal replacement; singly and composed) and the real fingerprints must be equal. On the executable SSA semantics of Model/Canon/Sem.lean (a fragment of go/ssa: integers of every width, strings, booleans, read-only int slices, phis, branches, len/cap, conversions; tied to native execution of generated functions on every run) the two normalisations that change what is printed are proved COSMETIC: printing the opposite test with exchanged successors and exchanging the operands of a commutative operation leave the outcome unchanged for every argument vector and fuel (C02_sem_flip_and_commute_are_cosmetic, via the view theorem C03_sem_view_same_behaviour).",
    "level_note": "PARTIAL: whole-function invariance (that the local normal forms compose to equal fingerprints for every program) is validated on generated programs, not proved; go/ssa's lowering of the two spellings is trusted. One known finding: a flip whose test is between two constants is folded by go/ssa before the canonicaliser sees it.",
    "partial": "composition of the local normal forms over whole functions is validated, not proved",
    "trusted_base": ["go/ssa lowering (renaming and reformatting do not change the SSA; the exporter drops names)", "harness AST rewriter (cosmetic catalogue)"],
}
PROPS["C03"] = {
    "technique": 'Lean 4 theorems on every normalisation guard + native execution of (P, edited Q) pairs as the behavioural oracle for fingerprint collisions',
    "also": ["C01"],   # the shared canon correspondence suite tags its violations C01
    "suites": [{"name": "collide", "quick": 8, "thorough": 50, "timeout": 3000}, {"name": "canon", "timeout": 3000},
               {"name": "ssasem", "quick": 6, "thorough": 40, "timeout": 3000}],
    "lean_modules": ["SfwModel.Props.C03", "SfwModel.Props.C03Names", "SfwModel.Props.C03Select", "SfwModel.Props.C03Sem", "SfwModel.Props.C03SemFuel"],
    "required_theorems": ["C03_commutative_guard", "C03_noncommutative_ops", "C03_swap_guard", "C03_no_swap_on_floats",
                          "C03_hoist_guard", "C03_recurrences_of_different_loops_differ", "C03_callee_names_distinct",
                          "C03_kept_literals_distinct", "C03_keepall_keeps", "C03_traversal_nodup", "C03_traversal_in_range",
                          "C03_sortedBlocks_perm", "C03_register_names_injective", "C03_block_names_injective",
                          "C03_select_order_perm", "C03_select_positions_injective", "C03_select_positions_total",
                          "C03_recurrences_of_different_types_differ", "C03_keepall_keeps_every_integer",
                          "C03_sem_commutative_sound", "C03_sem_string_concat_not_commutative", "C03_sem_swap_sound",
                          "C03_sem_swap_unsound_on_floats", "C03_sem_view_same_behaviour",
                          "C03_sem_view_needs_table_ids", "C03_sem_view_needs_if_last",
                          "C03_sem_fuel_monotone", "C03_sem_outcome_unique"],
    "level_text": "Kernel-checked on the Lean canonicaliser: canonical names are injective (the traversal of a well-formed CFG lists no block twice, every block is rendered exactly once and no two blocks share a label; the register map never gives one name to two values); guards: operands are reordered only for + * == != & | ^ and + only on numbers; a branch swap is recorded only for integer|string operands whose comparison feeds nothing but that If (never floats); only len/cap/complex/real/imag/min/max are hoisted and len/cap never on a map or channel; recurrences of different loops, different external callees and different kept literals print differently; KeepAllLiteralsPolicy abstracts no string and no int64. Behavioural tie and the search for collisions: every generated function P is edited into Q by the behaviour-changing catalogue (operator, operand, branch, callee, index, loop variable/step/compare, small literal, deliberately invalid commute/flip/hoist, exchanged nested loop variables, callee of another package, exchanged select cases), BOTH are executed natively on an input table, and whenever the outputs differ the fingerprints must differ under KeepAllLiterals and under the default policy. SEMANTIC soundness of the guards on the executable SSA semantics (Model/Canon/Sem.lean): isCommutative implies the operands can be exchanged (refuted for string +), isSafeToSwap implies `<` is the negation of `>=` (refuted for floats), and the whole VIEW of a function - what the canonical text shows after all recorded swaps and reorderings - behaves like the function for every argument vector and fuel (C03_sem_view_same_behaviour; well-formedness conditions found by two failed proof attempts are part of wfCheck).",
    "level_note": "PARTIAL: global injectivity of the canonical text (no two behaviourally different functions share it) is not proved: the SSA semantics covers a fragment (no memory, no calls but len/cap, floats compare-only), and the step from equal TEXT to equal view is covered by the naming-injectivity theorems only; the theorems pin each normalisation's guard, prove the guards sound on the fragment, and the native-execution oracle searches for collisions.",
    "partial": "SSA semantics for a fragment only; equal text => equal structure not proved: collisions are searched by native execution, guards are proved sound on the fragment",
    "trusted_base": ["the Go compiler and runtime (native execution of P and Q)", "go/ssa"],
}
PROPS["C04"] = {
    "needs_sfw": True,
    "technique": "Lean 4 proof of CompareFunctions' decision logic + native execution of (old, new) pairs against the real diff status",
    "suites": [{"name": "collide", "quick": 8, "thorough": 50, "timeout": 3000}, {"name": "zipeq", "quick": 4, "thorough": 40, "timeout": 3000},
               {"name": "ssasem", "quick": 4, "thorough": 30, "timeout": 3000}],
    "also": ["C09"],   # the zipeq suite tags its correspondence violations C09
    "lean_modules": ["SfwModel.Props.C04", "SfwModel.Props.C09Zipper", "SfwModel.Props.C09Equiv", "SfwModel.Props.C03Sem", "SfwModel.Props.C04Sem", "SfwModel.Props.C04Enforce", "SfwModel.Props.C04Verdict"],
    "required_theorems": ["C04_preserved_iff", "C04_identical_copy_preserved", "C04_oversized_never_zipper_preserved",
                          "C04_unmatched_means_modified", "C04_zipper_preserved_same_size", "C04_constant_marker_was_unsound",
                          "C04_equivalent_same_operator", "C04_equivalent_operands", "C04_equivalent_operands_swapped",
                          "C04_swap_guard", "C04_mapped_operand_respected",
                          "C04_sem_allowSwap_sound", "C04_sem_iso_same_behaviour", "C04_sem_exchanged_returns_rejected",
                          "C04_enforce_blocks_correspond", "C04_enforce_order_kept", "C04_enforce_successors_correspond",
                          "C04_enforce_phi_edges_correspond", "C04_enforce_entry",
                          "C04_zipper_verdict_sound", "C04_zipper_verdict_needs_cfg_consistency",
                          "C04_zipper_verdict_rejects_exchanged_returns"],
    "level_text": "Kernel-checked decision logic of CompareFunctions: the verdict is `preserved` iff the fingerprints are equal, or neither side is oversized and the zipper left nothing added and nothing removed; identical copies are preserved; an oversized function is never waved through by the zipper; any unmatched instruction means modified; zipper-preserved pairs have equally many instructions (bookkeeping theorems of C09). Behavioural tie: for every generated (old,new) pair whose native outputs differ on some input, and for the specials (exchanged if/else bodies, oversized edit, callee swap, select, nested loop variables), the real cli.CompareFunctions / ComputeDiff status must not be preserved; every function compared with a separately compiled copy of itself must be preserved with nothing added or removed. SEMANTIC: on the executable SSA semantics a control-flow respecting, order-preserving one-to-one matching of equal operations (isoCheck) implies equal outcomes for every argument vector (C04_sem_iso_same_behaviour), and what the zipper itself has checked when it says `preserved` - every pair equivalent, enforceControlFlow undid nothing (Model/ZipperCF, tied pair by pair through a hook), go/ssa's block shape and consistent edge lists - implies it (C04_zipper_verdict_sound; without the edge-list condition refuted, C04_zipper_verdict_needs_cfg_consistency). Both predicates are evaluated on the REAL zipper's final maps whenever it reports a pair of the fragment as preserved.",
    "level_note": "PARTIAL: that fingerprint equality implies equal behaviour is C03's open half; that an empty zipper difference does is proved on the interpreter's fragment under hypotheses evaluated at run time (the equivalence test implies instrMatches; go/ssa's shape), outside the fragment it is searched by native execution. The zipper's equivalence test is modelled and tied decision by decision (trace hook); theorems say what a positive decision guarantees (same operator fields; every operand already mapped to its partner or a non-linkable value with the same canonical text; swaps only for commutative numeric ops and ==/!=).",
    "partial": "soundness of the fingerprint route rests on C03; the structural route is proved on the SSA fragment under run-time-checked hypotheses, searched by native execution elsewhere",
    "trusted_base": ["the Go compiler and runtime (native execution)", "diff.Zipper's areEquivalent (exercised, not modelled)"],
}
PROPS["C16"] = {
    "needs_sfw": True,
    "technique": 'Lean 4 proof that the walker collects exactly the declared files (any tree) and of slot/strict logic + on-disk tree differential and go/parser coverage oracle',
    "suites": [{"name": "walk", "quick": 150, "thorough": 3000, "timeout": 3000}, {"name": "cli", "quick": 1, "thorough": 6, "timeout": 3000}],
    "lean_modules": ["SfwModel.Props.C16", "SfwModel.Props.C16Limits"],
    "required_theorems": ["C16_size_guard_matches_source", "C16_collect_iff", "C16_collected_are_files", "C16_collect_sublist", "C16_one_slot_per_file",
                          "C16_error_reported", "C16_strict_fails_iff", "C16_no_silent_drop_partial",
                          "C16_panic_drops_file_counterexample"],
    "level_text": "Kernel-checked on the walker model over arbitrary directory trees (mutual inductive Tree/Forest, any depth and width): a file is collected IF AND ONLY IF it is a non-test .go file with no vendor or hidden directory between the target and itself; collection is a sub-sequence of the walk (order kept, nothing twice); every collected file gets exactly one result slot; a file with an error is visible in its slot and sets hasErrors; strict mode fails iff there are no files or some file has an error. Tie: random trees are materialised on disk and the real cli.CollectFiles is compared with the Lean walker and with an independent declarative oracle; generated modules (nested packages, methods incl. generic receivers, nested closures, generic functions, package-level function literals, init, test-named files, vendor/hidden directories, oversize / syntax-error / type-error / build-tag-excluded / empty files) go through the real ProcessFilesParallel and RunCheckLogic and every go/parser FuncDecl-with-body and FuncLit must be reported with its file and line, every unanalysable file must carry an error, strict must fail exactly when one does.",
    "level_note": "PARTIAL: 'every function is fingerprinted' depends on go/packages + go/ssa enumeration and is validated against go/parser, not proved; the model shows (C16_panic_drops_file_counterexample) that a worker panic recovered by ProcessFilesParallel would leave an anonymous error-free slot - no input that makes the analysis panic is known, so this is recorded as a modelling observation, not a finding.",
    "partial": "function enumeration validated against go/parser; a recovered worker panic would drop a file silently (no triggering input known)",
    "trusted_base": ["filepath.WalkDir visits entries in lexical order and honours SkipDir", "go/packages, go/ssa, go/parser"],
}
PROPS["C17"] = {
    "technique": "Lean 4 cost-bound proof for the zipper's matching loops + total (terminating) model of every guarded traversal + operation counter on adversarial families",
    "also": ["C01"],   # the shared canon correspondence suite tags its violations C01
    "suites": [{"name": "dos", "timeout": 3000}, {"name": "canon", "timeout": 3000}],
    "lean_modules": ["SfwModel.Props.C17", "SfwModel.Props.C17Limits"],
    "required_theorems": ["C17_limits_match_model", "C17_bucket_capped", "C17_scan_cost", "C17_matchUsers_cost", "C17_propagate_cost",
                          "C17_propagate_cost_MaxCandidates", "C17_uncapped_quadratic"],
    "level_text": "Kernel-checked cost bound of the zipper's matching loops for every fingerprint function, equivalence relation and referrer structure: a bucket never exceeds the cap, one matchUsers call makes at most |old users| x cap areEquivalent calls, the whole propagation at most cap x (referrer slots of the queued values); without the cap the cost is exactly n^2. Every traversal of the Lean canonicaliser (renamer with depth and cycle guard, computeSCEV with depth and size guard, iterative Tarjan, loop-depth limit) is a total Lean function, i.e. terminates by the kernel-checked termination argument that uses the code's own guards, and the model takes each guard at the same point as the real code on guard-crossing inputs (canon suite). Tie: adversarial families at growing sizes, each in a child process with a 90 s budget; the areEquivalent counter (hook) must stay below the proved bound evaluated on the real functions; no panic; OVERSIZED marker beyond the block cap; token-mutated sources must not crash.",
    "level_note": "PARTIAL: absence of panics and wall-clock completion are runtime facts, exercised on the families and mutated sources, not proved; memory use is not measured. A genuine defect was found by this suite and repaired (SCEV trees of shared DAGs).",
    "partial": "absence of panics / completion are exercised on adversarial families, not proved for all inputs",
    "trusted_base": ["hook verifCountEquivalence (one increment per areEquivalent call)", "process timeout as the observation of non-termination"],
}
_PENDING = "check not built yet in this round (planned: Lean model + theorems + differential, see DESIGN.md §5)"
# entries with "unclaimed": True are runnable (./check Cxx) but not yet claimed in MANIFEST.json
NOT_APPLICABLE = {p: _PENDING for p in ["C%02d" % i for i in range(1, 21)] if p not in PROPS or PROPS[p].get("unclaimed")}
HOOK_COMMITS = ["62f4a35bbfb762f168515cd7c5338c1c6cff78cc", "8ba54fa04b0057593bc8f1f66ad8aa6e22db7412",
                "3d3870806691e3d1380ce61acaa03447408c434f", "ec37b7d789aa05b65a1eb90bfca12bce64489004",
                "7108ab156ac32728b9b534ee8b8813441695f9bf"]


# the configuration surface (Props/ConfigFacts.lean): every property carries the obligation that the
# environment variables its code can see are the reviewed ones; `env_area` names the regenerated lists
_ENV_AREAS = {"C01": ["envReadsAnalysis"], "C02": ["envReadsAnalysis"], "C03": ["envReadsAnalysis"], "C04": ["envReadsAnalysis"],
              "C05": ["envReadsStorage"], "C06": ["envReadsStorage"], "C07": ["envReadsStorage"], "C08": ["envReadsStorage"],
              "C09": ["envReadsAnalysis"], "C10": ["envReadsAnalysis", "envReadsStorage"], "C11": ["envReadsStorage"],
              "C12": ["envReadsAnalysis"], "C13": ["envReadsAudit"], "C14": ["envReadsSandbox"], "C15": ["envReadsAnalysis"],
              "C16": ["envReadsAnalysis", "envReadsStorage"], "C17": ["envReadsAnalysis"], "C18": ["envReadsStorage"],
              "C19": ["envReadsAnalysis"], "C20": ["envReadsStorage"]}
for _pid, _areas in _ENV_AREAS.items():
    PROPS[_pid]["env_areas"] = _areas
    PROPS[_pid].setdefault("lean_modules", []).append("SfwModel.Props.ConfigFacts")
    PROPS[_pid].setdefault("required_theorems", []).append(_pid + "_env_reads_reviewed")
