"""Per-property configuration of the check driver: which differential suites tie the Lean
model to /repo, which theorems must exist, what is trusted / partial."""

PROPS = {
    "C15": {
        "suites": [{"name": "env", "quick": 600, "thorough": 8000}],
        "required_theorems": ["C15_overrides_effective", "C15_overrides_last", "C15_passthrough",
                              "C15_passthrough_order", "C15_effective_passthrough"],
        "trusted_base": [
            "os/exec keeps the LAST entry of a duplicated key (modelled as `effective`)",
            "Go's strings.ToUpper maps into ASCII only a-z, U+017F and U+0131 (driver instance `goUpper`; the theorems hold for every `upper`)",
            "the Go runtime's os.Environ() (the harness feeds the model what the child process's os.Environ() returned)"],
        "level_text": "Kernel-checked theorems (for every environment list and every case-mapping function) that the seven overrides are the effective last-wins values and that unguarded entries pass through in order; the model is tied to GetHardenedEnv by running both on raw envp vectors in a re-exec'd child.",
        "level_note": "Trusted: Lean kernel, os/exec last-wins de-duplication, the runtime's os.Environ(), the harness. The model is hand-written; the tie is behavioural and bounded by the generator.",
        "assumptions": ["entries are valid UTF-8 in the model differential; invalid UTF-8 goes through the Go-side oracle only"],
    },
}

_PENDING = "check not built yet in this round (planned: Lean model + theorems + differential, see DESIGN.md §5)"
NOT_APPLICABLE = {p: _PENDING for p in ["C%02d" % i for i in range(1, 21)] if p not in PROPS}
HOOK_COMMITS = []
