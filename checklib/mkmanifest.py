#!/usr/bin/env python3
"""Regenerates /verif/MANIFEST.json from checklib/props.py (single source of truth)."""
import json, os, sys
VERIF = os.path.dirname(os.path.dirname(os.path.abspath(__file__)))
sys.path.insert(0, VERIF)
from checklib.props import PROPS, NOT_APPLICABLE, HOOK_COMMITS

all_ids = [json.loads(l)["id"] for l in open(os.path.join(VERIF, "properties.jsonl"))]
checks = []
for pid in all_ids:
    if pid not in PROPS or PROPS[pid].get("unclaimed"):
        continue
    s = PROPS[pid]
    checks.append({
        "property_id": pid,
        "quick_cmd": f"./check {pid} --tier quick",
        "thorough_cmd": f"./check {pid} --tier thorough",
        "evidence_file": f"/verif/evidence/{pid}.json",
        "replay_cmd_template": f"./check {pid} --replay {{path}}",
        "engine": "lean4-proof+differential",
        "level_claimed": {"category": "proof", "text": s["level_text"], "design_ref": s.get("design_ref", "DESIGN.md §5 " + pid)},
        "level_note": s["level_note"],
        "technique": s.get("technique", "Lean 4 theorems about a hand-written executable model + differential correspondence check against the real code"),
    })
na = [{"property_id": p, "reason": NOT_APPLICABLE[p]} for p in all_ids if p in NOT_APPLICABLE]
for p in all_ids:
    assert (p in PROPS) or (p in NOT_APPLICABLE), p
m = {
    "version": 1,
    "setup_cmd": "./setup",
    "hooks": {
        "guard": "verif",
        "enable": "go build -tags verif (the harness itself is injected with `go build -overlay`, nothing is written into /repo)",
        "baseline_off_cmd": "cd /repo && GOFLAGS=-mod=mod GOPROXY=off go test -json -vet=off -count=1 -timeout 25m ./...",
        "source_commits": HOOK_COMMITS,
        "add_only": True,
    },
    "engines": [
        {"name": "lean4-proof+differential", "path": "/verif/lean, /verif/harness, /verif/check",
         "serves_properties": [c["property_id"] for c in checks],
         "kind_free_text": "Lean 4 models + kernel-checked theorems (axiom-audited); Go harness built against /repo's working tree drives the real code and the compiled Lean model driver on the same inputs and diffs; property oracles on the real code produce replays"}],
    "checks": checks,
    "not_applicable": na,
    "notes": "All claimed checks share one driver: ./check <id> [--tier quick|thorough] [--replay file]. VERIF_SEED selects the PRNG seed.",
}
json.dump(m, open(os.path.join(VERIF, "MANIFEST.json"), "w"), indent=1)
print("wrote MANIFEST.json:", len(checks), "checks,", len(na), "not_applicable")
