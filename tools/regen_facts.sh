#!/bin/sh
# regenerate lean/SfwModel/Generated/Facts.lean from the current working tree of the repository
set -e
V=$(cd "$(dirname "$0")/.." && pwd)
R=${VERIF_REPO:-/repo}
T=$(mktemp -d /tmp/factx-XXXX)
(cd "$V/harness/extract" && GOFLAGS=-mod=mod GOPROXY=off go build -o "$T/fx" .)
"$T/fx" "$R" > "$V/lean/SfwModel/Generated/Facts.lean"
rm -rf "$T"
