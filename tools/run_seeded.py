#!/usr/bin/env python3
"""Run the registered quick check of each seeded change against /repo with the change applied
(git apply; run; git checkout -- .) and record in seeded/<id>/meta.json what was reported.
usage: tools/run_seeded.py [id ...]   (default: all of seeded/)"""
import json, os, re, subprocess, sys, time
VERIF = os.path.dirname(os.path.dirname(os.path.abspath(__file__)))
REPO = os.environ.get("VERIF_REPO", "/repo")
sys.path.insert(0, VERIF)
from checklib.props import PROPS

def sh(cmd, cwd=None):
    p = subprocess.run(cmd, cwd=cwd, shell=isinstance(cmd, str), stdout=subprocess.PIPE, stderr=subprocess.STDOUT, text=True)
    return p.returncode, p.stdout

def main():
    ids = sys.argv[1:] or sorted(os.listdir(os.path.join(VERIF, "seeded")))
    for sid in ids:
        d = os.path.join(VERIF, "seeded", sid)
        if not os.path.isfile(os.path.join(d, "patch.diff")):
            continue
        prop = sid.split("-")[0]
        meta_p = os.path.join(d, "meta.json")
        meta = json.load(open(meta_p)) if os.path.exists(meta_p) else {}
        meta.setdefault("property", prop)
        if prop not in PROPS or PROPS[prop].get("unclaimed"):
            print(f"{sid}: property {prop} has no registered check yet"); continue
        rc, out = sh(["git", "status", "--porcelain"], cwd=REPO)
        if out.strip():
            print("repo dirty, refusing"); return 2
        rc, out = sh(["git", "apply", os.path.join(d, "patch.diff")], cwd=REPO)
        if rc != 0:
            # the patch was cut against an older commit: try a three-way merge (clean merges only)
            rc, out = sh(["git", "apply", "--3way", os.path.join(d, "patch.diff")], cwd=REPO)
            sh(["git", "reset", "-q"], cwd=REPO)
            if rc != 0 or "with conflicts" in out:
                sh(["git", "checkout", "--", "."], cwd=REPO)
                meta["check_run"] = {"verdict": "patch no longer applies to HEAD (the code it changed was rewritten by a later fix)", "apply_output": out[-300:]}
                json.dump(meta, open(meta_p, "w"), indent=1)
                print(f"{sid}: patch does not apply: {out[-200:]}"); continue
            rcb, outb = sh("GOFLAGS=-mod=mod GOPROXY=off go build ./...", cwd=REPO)
            if rcb != 0:
                sh(["git", "checkout", "--", "."], cwd=REPO)
                print(f"{sid}: merged patch does not build"); continue
        t = time.time()
        # the evidence file and the regenerated facts describe the UNCHANGED tree: what a run against a
        # seeded change writes there is put back afterwards
        ev_p = os.path.join(VERIF, "evidence", prop + ".json")
        facts_p = os.path.join(VERIF, "lean", "SfwModel", "Generated", "Facts.lean")
        saved = {p: (open(p).read() if os.path.exists(p) else None) for p in (ev_p, facts_p)}
        try:
            rc, out = sh([os.path.join(VERIF, "check"), prop, "--tier", "quick"], cwd=VERIF)
        finally:
            sh(["git", "checkout", "--", "."], cwd=REPO)
            sh(["git", "clean", "-fdq", "--", "pkg", "internal", "cmd"], cwd=REPO)
            for p, txt in saved.items():
                if txt is not None:
                    open(p, "w").write(txt)
        viols = re.findall(r"^VIOLATION .*$", out, re.M)
        classes = re.findall(r"^\s+class=(\S+)", out, re.M)
        concrete = [v for v in viols if not v.endswith("no-failing-input-found")]
        meta["check_run"] = {
            "command": f"git -C /repo apply seeded/{sid}/patch.diff && ./check {prop} --tier quick ; git -C /repo checkout -- .",
            "exit_code": rc, "seconds": round(time.time() - t, 1),
            "violation_lines": len(viols), "with_failing_input": len(concrete),
            "classes": sorted(set(classes))[:12],
            "verdict": "detected (failing input reported)" if concrete else ("detected (no-failing-input-found)" if viols else "MISSED"),
        }
        json.dump(meta, open(meta_p, "w"), indent=1)
        print(f"{sid}: rc={rc} {meta['check_run']['verdict']} {sorted(set(classes))[:4]}")
    # leave the regenerated facts in the state of the unchanged tree
    sh([os.path.join(VERIF, "check"), "C01", "--tier", "quick"], cwd=VERIF) if False else None
    return 0

if __name__ == "__main__":
    sys.exit(main())
